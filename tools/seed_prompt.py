#!/venv/bin/python
"""usage: tools/seed_prompt.py <round-dir> <ID>   - creates a scratch worktree <round-dir>/<ID> of /repo HEAD and prints the
prompt for an independent sub-agent (property text + what earlier seeded changes for that property did, nothing else from /verif)."""
import json, os, subprocess, sys, glob
rd, pid = sys.argv[1], sys.argv[2]
focus = sys.argv[3] if len(sys.argv) > 3 else ""
wt = os.path.join(rd, pid)
if not os.path.isdir(wt):
    subprocess.check_call(["git", "-C", "/repo", "worktree", "add", "--detach", wt, "HEAD"], stdout=subprocess.DEVNULL, stderr=subprocess.DEVNULL)
prop = [json.loads(l) for l in open("/verif/properties.jsonl") if json.loads(l)["id"] == pid][0]
text = prop.get("statement") or prop.get("text")
earlier = []
for d in sorted(glob.glob(f"/verif/seeded/{pid}-*/meta.json")):
    m = json.load(open(d)); earlier.append("- " + " ".join(m.get("summary", "").split())[:330])
print(f"""You are helping to evaluate a verification harness for NREL/hive (a discrete-time, agent-based simulator of electric ride-hail fleets, Python). Your job is to play the part of a developer who introduces a subtle regression.

Your scratch git worktree of the repository is {wt} (detached HEAD). Work ONLY inside it: never touch /repo or /verif, never read anything under /verif, never run `git stash`, do not commit. Run python as `cd {wt} && PYTHONPATH={wt} /venv/bin/python ...` so that your worktree's copy of the package `nrel.hive` is the one imported (check once with `python -c "import nrel.hive, sys; print(nrel.hive.__file__)"`). The sandbox has no network.

The property (title: {prop.get('title','')}):

\"\"\"{text}\"\"\"

Task: make ONE small, plausible-looking change to the library code under {wt}/nrel/hive (the kind of refactoring, optimisation, tidy-up or "fix" a maintainer might merge) that BREAKS this property, while
 1. everything still imports and the existing test suite gives exactly the same result as before: `cd {wt} && PYTHONPATH={wt} /venv/bin/python -m pytest -q -p no:cacheprovider tests 2>&1 | tail -3` - on the unchanged tree this prints `8 failed, 273 passed, 3 skipped` (the 8 failures are sandbox-related and must stay exactly those 8; run it first to see);
 2. the breakage does NOT show in ordinary use at once. It must need something specific to manifest: a multi-step sequence of operations, a particular interleaving of events inside one time step, an error/refusal path taken at a particular point, an unusual but legal input or configuration value, a long run (day wrap, many steps), or two cooperating sites that each look fine alone. {focus}
 3. it is a genuine violation of the property as worded above (not merely a change of unrelated behaviour), observable through HIVE's public behaviour (simulation states, reports/events, outputs).

Earlier changes already collected for this property - yours must be different in mechanism AND in the file/function touched, and should attack a different clause of the property where one exists:
{chr(10).join(earlier) if earlier else '- (none)'}

Useful facts: scenarios can be built in memory with the mocks in nrel/hive/resources/mock_lobster.py (mock_sim, mock_env, mock_vehicle, mock_station, mock_base, mock_request, mock_update, ...; see tests/ for usage) or loaded from files with nrel.hive.initialization.load.load_config / initialize_simulation.load_simulation or nrel.hive.app.hive_cosim (load_scenario, crank, close). `OSMRoadNetwork.from_file` is broken in this sandbox (networkx version); build street graphs with networkx directly if you need one. Simulation-state operations return (error, result) tuples; vehicle-state `enter/exit/update` return (error, sim-or-None).

Deliverables, written into {wt}/_seed/ (create the directory):
 - demo.py : a self-contained program (run as `cd {wt} && PYTHONPATH={wt} /venv/bin/python _seed/demo.py`) that exits 0 on the unchanged code and exits 1 (printing what went wrong) with your change. It must exercise the public behaviour, not just call the line you edited, and finish in under a minute. Verify both directions yourself (use `git diff -- nrel > _seed/x.diff; git checkout -- nrel; ...; git apply _seed/x.diff` - not git stash).
 - patch.diff : `git -C {wt} diff -- nrel` with your change applied (leave the change applied in the worktree when you finish).
 - meta.json : {{"property": "{pid}", "summary": "<what was changed, where, 2-4 sentences>", "needs": "<what exactly is needed for the violation to manifest, and what stays unaffected>", "files": ["nrel/hive/..."], "suite": "<the pytest summary line with the change>", "demo_with_change": 1, "demo_without_change": 0}}

Finish with a three-line report: the file changed, what it needs to manifest, and the pytest summary line.""")
