#!/bin/bash
# usage: tools/reeval_seeds.sh [seed-dir-glob]   - re-runs, for every recorded seeded change, the quick check of its own property
# against a scratch copy of /repo with the change applied (sensitivity regression after generator changes). One line per change.
set -u
cd "$(dirname "$0")/.."
PAT="${1:-seeded/C*}"
for d in $PAT; do
  [ -f "$d/patch.diff" ] || continue
  id=$(basename "$d" | cut -d- -f1)
  if grep -q '"superseded_by_fix"' "$d/meta.json" 2>/dev/null; then echo "$d superseded-by-fix (skipped)"; continue; fi
  COPY="$(mktemp -d /dev/shm/hv-reseed-XXXXXX)"
  rsync -a --exclude .git --exclude '__pycache__' /repo/ "$COPY/"
  if ! (cd "$COPY" && patch -p1 -s < "$OLDPWD/$d/patch.diff"); then echo "$d patch-failed"; rm -rf "$COPY"; continue; fi
  s=$(date +%s); out=$(HV_EVIDENCE_DIR=$PWD/out/evidence-mutants VERIF_REPO="$COPY" ./check $id quick 2>&1); rc=$?; e=$(date +%s)
  echo "$d rc=$rc $((e-s))s :: $(echo "$out" | grep -m1 '^violation:' | cut -c1-140)"
  rm -rf "$COPY"
done
