#!/venv/bin/python
"""usage: record_seed.py <seeded dir> <checks run, comma separated> <caught_by or 'none'> <note>
Adds the harness-side evaluation to meta.json of a seeded change."""
import json, sys
d, ran, caught, note = sys.argv[1:5]
p = d.rstrip("/") + "/meta.json"
m = json.load(open(p))
m["evaluation"] = {
    "confirmed_by_harness_author": "tools/eval_seed.sh: demo exits 0 without / 1 with the change on a fresh scratch copy of /repo HEAD; pytest summary unchanged (273 passed, same 8 sandbox failures)",
    "checks_run": ran.split(","), "caught_by": [] if caught == "none" else caught.split(","), "note": note,
}
json.dump(m, open(p, "w"), indent=1)
print("recorded", p)
