#!/bin/bash
# usage: ROUND=<round dir name under /tmp/seed> [VERIF_HOME=<copy of /verif>] tools/eval_round.sh ID[:extra,checks] ...   (evaluates /tmp/seed/$ROUND/<ID>/_seed with tools/eval_seed.sh)
cd ${VERIF_HOME:-/verif}
for spec in "$@"; do
  id=${spec%%:*}; extra=""; [[ "$spec" == *:* ]] && extra=$(echo ${spec#*:} | tr ',' ' ')
  /verif/tools/eval_seed.sh /tmp/seed/${ROUND:-r8}/$id/_seed $id $extra > /tmp/seed/${ROUND:-r8}/$id.eval 2>&1
  echo "== $id"; grep -v conda /tmp/seed/${ROUND:-r8}/$id.eval
done
