#!/bin/bash
# usage: tools/mutant.sh <patch.diff> <check args...>   e.g. tools/mutant.sh seeded/x/patch.diff C02 quick
# Runs a check against a scratch copy of /repo with the patch applied; the copy is removed afterwards.
set -u
PATCH="$(readlink -f "$1")"; shift
COPY="$(mktemp -d /dev/shm/hv-mut-XXXXXX)"
trap 'rm -rf "$COPY"' EXIT
rsync -a --exclude .git --exclude '__pycache__' /repo/ "$COPY/"
( cd "$COPY" && patch -p1 -s < "$PATCH" ) || { echo "patch failed"; exit 3; }
cd /verif && HV_EVIDENCE_DIR=/verif/out/evidence-mutants VERIF_REPO="$COPY" ./check "$@"
