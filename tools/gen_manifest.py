#!/venv/bin/python
"""Regenerates /verif/MANIFEST.json from the table below (single source of truth) and validates it
against /root/.vp/MANIFEST.schema.json when that file and jsonschema are available."""
import json
import sys
from pathlib import Path

VERIF = Path(__file__).resolve().parent.parent
PROPS = [json.loads(l) for l in (VERIF / "properties.jsonl").read_text().splitlines() if l.strip()]

HIST = "stateful property-based testing (Hypothesis RuleBasedStateMachine over generated worlds) against a from-scratch recount / ledger model; ddmin-shrunk replay"
# id -> (technique, level text, level note)
COMP = "property-based testing (Hypothesis @given over generated definitions / operation sequences) against an explicit reference model; Hypothesis-shrunk replay"
BOTH = COMP + " + " + HIST
NOTE = "Trusts Hypothesis' generators, HIVE's own loader for input soundness and the harness' oracle code. Generated search never establishes absence. Pooling activities are unreachable and not generated; domain restrictions are listed in each evidence file's assumptions."


def _t(what):
    return "Generated-input search with an explicit oracle: " + what + " A green run means no counterexample in the explored cases (counts, non-triviality and samples are in the evidence file); it is not a proof."


CLAIMED = {
    "C02": (HIST, _t("adversarial instruction/step histories on generated worlds with scarce plugs and stalls; after every step and single-instruction probe every plug/queue/stall counter is recounted from vehicle activities."), NOTE),
    "C03": (HIST, _t("histories (location grids of resolution 15 down to 9) with dense request streams (incl. the optional allows_pooling column), controller-defined boarding instructions, double/re-dispatch, interruption attempts and stale request updates handed back through the generic entity API; a per-request ledger automaton advanced from captured events is compared with the state after every step, fares reconciled with balances."), NOTE),
    "C04": (BOTH, _t("(a) call sequences on generated BEV/ICE definitions and chargers (sub-steps, clamps, wrong plug types) checked per call for range, booking identities, strict decrease and deliverable-energy bound; (b) the same identities per vehicle per step on whole histories."), NOTE),
    "C05": (HIST, _t("histories with complete time-varying tariffs, mixed fleets, station and base charging; a double-entry ledger built from charge/pickup events is compared with vehicle and station balances and energy counters after every step, and the stations' per-step load reports (HIVE's construct_station_load_events on the captured reports) with what each station's state says it dispensed, and the run's summary statistics (asked for mid-run and twice at the end) with the totals over stations and vehicles."), NOTE),
    "C06": (BOTH, _t("(a) whole journeys through traverse() on routes from route() (generated street graphs, Denver, straight-line) with the speed bound, junction, link-order and progress clauses per step; (b) the movement clauses on whole histories through move()."), NOTE),
    "C07": (HIST, _t("histories (steps 1-600 s) biased to stationary instructions naming remote targets, with attempts to relocate stations / bases through modify_*_safe and controller-defined instructions (an Instruction subclass naming the next activity and a route of its own: direct, from / to elsewhere, empty, reversed); after every step and single-instruction probe each activity is compared with the vehicle's cell and each route with its position and target; a trip may only start at the request's origin (pickup events, single-instruction probes) and only end at its destination (per step, per probe, and in an interruption sweep that tells every carrying vehicle to idle on the side in every reached state)."), NOTE),
    "C08": (BOTH, _t("(a) model-based operation sequences on simulation_state_ops against a dict model, exact index comparison after every operation; (b) the same recount after every step of whole histories."), NOTE),
    "C10": (HIST, _t("histories over worlds with 0-3 fleets (ids that may contain one another) and arbitrary membership of every entity, requests injected with memberships set after build and re-offered to another fleet while a vehicle is under way; (a) state invariant recomputed from raw membership sets after every step/probe, (b) every instruction emitted by the built-in Dispatcher / ChargingFleetManager (recording proxy) and drivers must name a granting request/station."), NOTE),
    "C01": ("differential property-based testing across worker processes started with different PYTHONHASHSEEDs (Hypothesis-generated scenarios + shipped Denver scenarios), exact comparison of canonical states, event multisets and summary",
            _t("the same generated or shipped scenario is run step by step in 5 worker processes with different interpreter hash seeds (always 0, 1, 3) and different local time zones - one of them a brand-new process for every scenario, the others long-lived with earlier scenarios and a warm-up world (other vehicle definitions under the same ids) behind them - and twice in one process; per-step canonical states, event multisets and summary statistics must agree exactly."), NOTE),
    "C09": (HIST, _t("in every reached state single instructions of all 9 types and batches are applied to the current state and compared (rejected => nothing changed, accepted => instructed class + recounts + the request records the vehicle sent to it); per step the INSTRUCTION reports are compared with 'driver's own, else last generated' recomputed on the state handed to the generators."), NOTE),
    "C11": (COMP, _t("whole co-simulation runs of generated sorted request files and price tables (by station id / region at one resolution, partial tables, unknown stations, odd step lengths) against an arithmetic reference model of admission, cancellation and price application; any exception is a violation."), NOTE),
    "C12": (COMP, _t("generated states (activities, shifts, charge levels, 0-3 fleets with ids that may contain one another, requests named like vehicles, ties) handed to Dispatcher.generate_instructions; per fleet the pairing is checked for distinctness, eligibility by an independent re-statement, size = min(counts) (in whole histories 'driver on shift' is decided from the shift table and the clock, not from the flag the dispatcher reads) and total grid distance = optimum of an exact subset DP."), NOTE),
    "C13": (COMP, _t("route() and position_from_geoid() on generated strongly connected street graphs, Denver and the straight-line network (ten places on earth, next-door cells; locations tens of kilometres outside the network are snapped too) for generated position pairs (same link both orders, opposite directions, interiors) against a validity predicate."), NOTE),
    "C14": (COMP, _t("inner travel time of route() between link pairs on generated graphs with strongly varying speeds and on Denver (the network also written out with to_file() between queries, default speed of unmarked links drawn from 40 / 25 / 70 km/h) equals the optimum of an independent Dijkstra."), NOTE),
    "C15": (COMP, _t("each generated scenario is loaded fresh three times: split cranks (optionally re-injecting generators), one crank, batch runner; per-step canonical states and event multisets must be equal and the clock uniform; the step()/run() range is checked against an arbitrary end time."), NOTE),
    "C16": (HIST, _t("histories retain up to 8 states with deep fingerprints (including instance ids) which must never change under later steps / instruction applications; retained states are stepped twice with identical controllers - with a what-if sweep from other states in between, or run forward 3-10 steps twice - and compared modulo instance ids and with the result recorded when they were retained."), NOTE),
    "C19": (COMP, _t("whole runs through the real file-writing handlers (request ids that come round again, default and generated log_sim_config, built-in, deterministic and clumsy controllers); the parsed event.log, per-step snapshots with captured reports and the summary are reconciled (odometer, energy, station load per flush, request counts, state-diff <-> event bijection, pickup wait bounds, get_events()/clear() windows)."), NOTE),
    "C20": (COMP, _t("(a) time_in_range and file-built schedule functions against an integer reference on boundary triples; (b) 25-50 h runs with generated shift tables (a quarter loaded a second time from the same path after the table was edited) and autonomous vehicles whose ids sort before, between and after the human-driven ones: availability, on/off events and dispatches of human drivers per step against the reference; dispatcher output via recording proxy."), NOTE),
    "C17": (HIST, _t("histories with near-empty vehicles, re-dispatch, interruption and cancellation; every recorded dispatched vehicle is checked against that vehicle's activity after every step/probe; 'at most one vehicle travelling to a request' is judged on the built-in dispatcher's recorded input and output for every request no scripted controller named, also while a clumsy controller sends refusable instructions to vehicles under way."), NOTE),
    "C18": (HIST, _t("histories that rush 4-9 vehicles (autonomous and human-driven) to one-plug stations; plugs are throttled mid-run; each queue->plug grant is compared with the (enqueue time, id) of every vehicle left waiting for the same plug that its powertrain can use (decided from the data, not by HIVE's valid_charger)."), NOTE),
}
NOT_YET = "check not built yet in this round (planned, see DESIGN.md section 8)"


def main() -> int:
    checks = []
    for pid, (tech, text, note) in sorted(CLAIMED.items()):
        checks.append({
            "property_id": pid,
            "quick_cmd": f"./check {pid} quick",
            "thorough_cmd": f"./check {pid} thorough",
            "evidence_file": f"evidence/{pid}.json",
            "replay_cmd_template": f"./check {pid} --replay {{path}}",
            "engine": "hv",
            "level_claimed": {"category": "exploration", "text": text, "design_ref": f"DESIGN.md §{pid}"},
            "level_note": note,
            "technique": tech,
        })
    na = [{"property_id": p["id"], "reason": NOT_YET} for p in PROPS if p["id"] not in CLAIMED]
    m = {
        "version": 1,
        "setup_cmd": "./check --setup",
        "hooks": {
            "guard": "NREL_HIVE_VERIF",
            "enable": "no guarded source hooks exist: every observation goes through HIVE's public entry points (load_simulation with custom instruction generators / init functions, hive_cosim.crank, Reporter handlers); ./check exports NREL_HIVE_VERIF=1 for uniformity",
            "baseline_off_cmd": "cd /repo && /venv/bin/python -m pytest -ra -q -p no:cacheprovider --timeout=900 --continue-on-collection-errors",
            "source_commits": [],
            "add_only": True,
        },
        "engines": [{"name": "hv", "path": "hv/", "serves_properties": sorted(CLAIMED), "kind_free_text": "Hypothesis-driven property-based / stateful testing harness with explicit oracles, sharded over 16 processes"}],
        "checks": checks,
        "not_applicable": na,
        "notes": "All checks: exit 0 held / exit 1 + VIOLATION line / exit 2 harness error or inconclusive (vacuity floor missed). Replay files of found violations are written to out/replays/; the committed regression corpus is replays/<ID>/. Known findings: KNOWN_FINDINGS.json.",
    }
    (VERIF / "MANIFEST.json").write_text(json.dumps(m, indent=1) + "\n")
    try:
        import jsonschema

        schema = json.loads(Path("/root/.vp/MANIFEST.schema.json").read_text())
        jsonschema.validate(m, schema)
        print("MANIFEST.json valid:", len(checks), "checks,", len(na), "not_applicable")
    except ImportError:
        print("MANIFEST.json written (jsonschema not importable here)")
    return 0


if __name__ == "__main__":
    sys.exit(main())
