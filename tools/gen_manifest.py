#!/venv/bin/python
"""Regenerates /verif/MANIFEST.json from the table below (single source of truth) and validates it
against /root/.vp/MANIFEST.schema.json when that file and jsonschema are available."""
import json
import sys
from pathlib import Path

VERIF = Path(__file__).resolve().parent.parent
PROPS = [json.loads(l) for l in (VERIF / "properties.jsonl").read_text().splitlines() if l.strip()]

HIST = "stateful property-based testing (Hypothesis RuleBasedStateMachine over generated worlds) against a from-scratch recount / ledger model; ddmin-shrunk replay"
# id -> (technique, level text, level note)
COMP = "property-based testing (Hypothesis @given over generated definitions / operation sequences) against an explicit reference model; Hypothesis-shrunk replay"
BOTH = COMP + " + " + HIST
NOTE = "Trusts Hypothesis' generators, HIVE's own loader for input soundness and the harness' oracle code. Generated search never establishes absence. Pooling activities are unreachable and not generated; domain restrictions are listed in each evidence file's assumptions."


def _t(what):
    return "Generated-input search with an explicit oracle: " + what + " A green run means no counterexample in the explored cases (counts, non-triviality and samples are in the evidence file); it is not a proof."


CLAIMED = {
    "C02": (HIST, _t("adversarial instruction/step histories on generated worlds with scarce plugs and stalls; after every step and single-instruction probe every plug/queue/stall counter is recounted from vehicle activities."), NOTE),
    "C03": (HIST, _t("histories with dense request streams, double/re-dispatch and interruption attempts; a per-request ledger automaton advanced from captured events is compared with the state after every step, fares reconciled with balances."), NOTE),
    "C04": (BOTH, _t("(a) call sequences on generated BEV/ICE definitions and chargers (sub-steps, clamps, wrong plug types) checked per call for range, booking identities, strict decrease and deliverable-energy bound; (b) the same identities per vehicle per step on whole histories."), NOTE),
    "C05": (HIST, _t("histories with complete time-varying tariffs, mixed fleets, station and base charging; a double-entry ledger built from charge/pickup events is compared with vehicle and station balances and energy counters after every step."), NOTE),
    "C06": (BOTH, _t("(a) whole journeys through traverse() on routes from route() (generated street graphs, Denver, straight-line) with the speed bound, junction, link-order and progress clauses per step; (b) the movement clauses on whole histories through move()."), NOTE),
    "C07": (HIST, _t("histories biased to stationary instructions naming remote targets; after every step and single-instruction probe each activity is compared with the vehicle's cell and each route with its position and target."), NOTE),
    "C08": (BOTH, _t("(a) model-based operation sequences on simulation_state_ops against a dict model, exact index comparison after every operation; (b) the same recount after every step of whole histories."), NOTE),
    "C10": (HIST, _t("histories over worlds with 2-3 fleets and arbitrary membership of every entity; (a) state invariant recomputed from raw membership sets after every step/probe, (b) every instruction emitted by the built-in Dispatcher / ChargingFleetManager (recording proxy) and drivers must name a granting request/station."), NOTE),
    "C17": (HIST, _t("histories with near-empty vehicles, re-dispatch, interruption and cancellation; every recorded dispatched vehicle is checked against that vehicle's activity after every step/probe; uniqueness under the built-in dispatcher alone."), NOTE),
    "C18": (HIST, _t("histories that rush 4-9 vehicles to one-plug stations; each queue->plug grant is compared with the (enqueue time, id) of every vehicle left waiting for the same plug."), NOTE),
}
NOT_YET = "check not built yet in this round (planned, see DESIGN.md section 8)"


def main() -> int:
    checks = []
    for pid, (tech, text, note) in sorted(CLAIMED.items()):
        checks.append({
            "property_id": pid,
            "quick_cmd": f"./check {pid} quick",
            "thorough_cmd": f"./check {pid} thorough",
            "evidence_file": f"evidence/{pid}.json",
            "replay_cmd_template": f"./check {pid} --replay {{path}}",
            "engine": "hv",
            "level_claimed": {"category": "exploration", "text": text, "design_ref": f"DESIGN.md §{pid}"},
            "level_note": note,
            "technique": tech,
        })
    na = [{"property_id": p["id"], "reason": NOT_YET} for p in PROPS if p["id"] not in CLAIMED]
    m = {
        "version": 1,
        "setup_cmd": "./check --setup",
        "hooks": {
            "guard": "NREL_HIVE_VERIF",
            "enable": "no guarded source hooks exist: every observation goes through HIVE's public entry points (load_simulation with custom instruction generators / init functions, hive_cosim.crank, Reporter handlers); ./check exports NREL_HIVE_VERIF=1 for uniformity",
            "baseline_off_cmd": "cd /repo && /venv/bin/python -m pytest -ra -q -p no:cacheprovider --timeout=900 --continue-on-collection-errors",
            "source_commits": [],
            "add_only": True,
        },
        "engines": [{"name": "hv", "path": "hv/", "serves_properties": sorted(CLAIMED), "kind_free_text": "Hypothesis-driven property-based / stateful testing harness with explicit oracles, sharded over 16 processes"}],
        "checks": checks,
        "not_applicable": na,
        "notes": "All checks: exit 0 held / exit 1 + VIOLATION line / exit 2 harness error or inconclusive (vacuity floor missed). Replay files of found violations are written to out/replays/; the committed regression corpus is replays/<ID>/. Known findings: KNOWN_FINDINGS.json.",
    }
    (VERIF / "MANIFEST.json").write_text(json.dumps(m, indent=1) + "\n")
    try:
        import jsonschema

        schema = json.loads(Path("/root/.vp/MANIFEST.schema.json").read_text())
        jsonschema.validate(m, schema)
        print("MANIFEST.json valid:", len(checks), "checks,", len(na), "not_applicable")
    except ImportError:
        print("MANIFEST.json written (jsonschema not importable here)")
    return 0


if __name__ == "__main__":
    sys.exit(main())
