#!/venv/bin/python
"""Regenerates /verif/MANIFEST.json from the table below (single source of truth) and validates it
against /root/.vp/MANIFEST.schema.json when that file and jsonschema are available."""
import json
import sys
from pathlib import Path

VERIF = Path(__file__).resolve().parent.parent
PROPS = [json.loads(l) for l in (VERIF / "properties.jsonl").read_text().splitlines() if l.strip()]

HIST = "stateful property-based testing (Hypothesis RuleBasedStateMachine over generated worlds) against a from-scratch recount / ledger model; ddmin-shrunk replay"
# id -> (technique, level text, level note)
CLAIMED = {
    "C02": (HIST,
            "Generated-history search: thousands of adversarial instruction/step histories on generated worlds with scarce plugs and stalls; after every step and single-instruction probe every counter is recounted from vehicle activities. Finds leaks that need a specific multi-step interleaving; establishes nothing about histories not generated.",
            "Trusts Hypothesis' generators, HIVE's own loader for input soundness, and the harness' recount. Pooling activities are unreachable and not generated."),
}
NOT_YET = "check not built yet in this round (planned, see DESIGN.md section 8)"


def main() -> int:
    checks = []
    for pid, (tech, text, note) in sorted(CLAIMED.items()):
        checks.append({
            "property_id": pid,
            "quick_cmd": f"./check {pid} quick",
            "thorough_cmd": f"./check {pid} thorough",
            "evidence_file": f"evidence/{pid}.json",
            "replay_cmd_template": f"./check {pid} --replay {{path}}",
            "engine": "hv",
            "level_claimed": {"category": "exploration", "text": text, "design_ref": f"DESIGN.md §{pid}"},
            "level_note": note,
            "technique": tech,
        })
    na = [{"property_id": p["id"], "reason": NOT_YET} for p in PROPS if p["id"] not in CLAIMED]
    m = {
        "version": 1,
        "setup_cmd": "./check --setup",
        "hooks": {
            "guard": "NREL_HIVE_VERIF",
            "enable": "no guarded source hooks exist: every observation goes through HIVE's public entry points (load_simulation with custom instruction generators / init functions, hive_cosim.crank, Reporter handlers); ./check exports NREL_HIVE_VERIF=1 for uniformity",
            "baseline_off_cmd": "cd /repo && /venv/bin/python -m pytest -ra -q -p no:cacheprovider --timeout=900 --continue-on-collection-errors",
            "source_commits": [],
            "add_only": True,
        },
        "engines": [{"name": "hv", "path": "hv/", "serves_properties": sorted(CLAIMED), "kind_free_text": "Hypothesis-driven property-based / stateful testing harness with explicit oracles, sharded over 16 processes"}],
        "checks": checks,
        "not_applicable": na,
        "notes": "All checks: exit 0 held / exit 1 + VIOLATION line / exit 2 harness error or inconclusive (vacuity floor missed). Replay files of found violations are written to out/replays/; the committed regression corpus is replays/<ID>/. Known findings: KNOWN_FINDINGS.json.",
    }
    (VERIF / "MANIFEST.json").write_text(json.dumps(m, indent=1) + "\n")
    try:
        import jsonschema

        schema = json.loads(Path("/root/.vp/MANIFEST.schema.json").read_text())
        jsonschema.validate(m, schema)
        print("MANIFEST.json valid:", len(checks), "checks,", len(na), "not_applicable")
    except ImportError:
        print("MANIFEST.json written (jsonschema not importable here)")
    return 0


if __name__ == "__main__":
    sys.exit(main())
