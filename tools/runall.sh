#!/bin/bash
# usage: tools/runall.sh [tier] [seed]  - runs every registered check sequentially, prints one line each
TIER="${1:-quick}"; export VERIF_SEED="${2:-1}"
cd "$(dirname "$0")/.."
for p in C01 C02 C03 C04 C05 C06 C07 C08 C09 C10 C11 C12 C13 C14 C15 C16 C17 C18 C19 C20; do
  s=$(date +%s); out=$(./check $p $TIER 2>&1); rc=$?; e=$(date +%s)
  echo "$p rc=$rc $((e-s))s :: $(echo "$out" | tail -1 | cut -c1-200)"
done
