#!/venv/bin/python
"""Runs every mutant of mutants.py against its checks' quick tier (scratch copy under /dev/shm, removed afterwards).
usage: run.py [name-prefix ...]   -> appends to tools/sensitivity/RESULTS.tsv"""
import difflib, os, subprocess, sys, tempfile, time
sys.path.insert(0, os.path.dirname(__file__))
from mutants import MUTANTS
VERIF = os.path.abspath(os.path.join(os.path.dirname(__file__), "..", ".."))
sel = sys.argv[1:]
out = open(os.path.join(VERIF, "tools/sensitivity/RESULTS.tsv"), "a")
for name, checks, edits in MUTANTS:
    if sel and not any(name.startswith(p) for p in sel):
        continue
    chunks = []
    ok = True
    for f, old, new in edits:
        a = open("/repo/" + f).read()
        if old is None or old not in a:
            print(f"{name}: pattern not found in {f}"); ok = False; break
        b = a.replace(old, new, 1)
        chunks.append("".join(difflib.unified_diff(a.splitlines(True), b.splitlines(True), "a/" + f, "b/" + f)))
    if not ok:
        out.write(f"{name}\t-\tPATTERN-NOT-FOUND\n"); out.flush(); continue
    with tempfile.NamedTemporaryFile("w", suffix=".diff", delete=False) as t:
        t.write("".join(chunks)); patch = t.name
    for c in checks:
        t0 = time.time()
        r = subprocess.run([os.path.join(VERIF, "tools/mutant.sh"), patch, c, "quick"], capture_output=True, text=True)
        lines = [l for l in r.stdout.splitlines() if l.startswith("violation:")]
        verdict = {0: "MISSED", 1: "caught", 2: "inconclusive/harness"}.get(r.returncode, f"rc={r.returncode}")
        msg = f"{name}\t{c}\t{verdict}\t{time.time()-t0:.0f}s\t{(lines[0][11:] if lines else r.stdout.strip().splitlines()[-1] if r.stdout.strip() else '')[:160]}"
        print(msg); out.write(msg + "\n"); out.flush()
    os.unlink(patch)
