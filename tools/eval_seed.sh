#!/bin/bash
# usage: tools/eval_seed.sh <seed-dir containing patch.diff and demo.py> <ID> [more IDs...]
# Confirms a seeded change independently (suite unchanged, demo fails with / passes without), then runs the named
# quick checks against a scratch copy of /repo with the patch applied. Prints a summary; leaves nothing behind.
set -u
DIR="$(readlink -f "$1")"; shift
COPY="$(mktemp -d /dev/shm/hv-seed-XXXXXX)"
trap 'rm -rf "$COPY"' EXIT
rsync -a --exclude .git --exclude '__pycache__' /repo/ "$COPY/"
mkdir -p "$COPY/_seed"; cp "$DIR"/demo.py "$COPY/_seed/" 2>/dev/null
cd "$COPY"
echo "demo without change: $(PYTHONPATH=$COPY timeout 600 /venv/bin/python _seed/demo.py >/dev/null 2>&1; echo $?)"
patch -p1 -s < "$DIR/patch.diff" || { echo "patch failed"; exit 3; }
echo "demo with change:    $(PYTHONPATH=$COPY timeout 600 /venv/bin/python _seed/demo.py >/dev/null 2>&1; echo $?)"
echo "suite with change:   $(PYTHONPATH=$COPY /venv/bin/python -m pytest -q -p no:cacheprovider tests 2>&1 | tail -1)"
cd "${VERIF_HOME:-/verif}"
for id in "$@"; do
  s=$(date +%s); out=$(HV_EVIDENCE_DIR=$PWD/out/evidence-mutants VERIF_REPO="$COPY" ./check $id quick 2>&1); rc=$?; e=$(date +%s)
  echo "check $id rc=$rc $((e-s))s :: $(echo "$out" | grep -m2 '^violation:' | tr '\n' '|' | cut -c1-300) $(echo "$out" | tail -1 | cut -c1-160)"
done
