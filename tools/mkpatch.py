#!/venv/bin/python
"""usage: mkpatch.py <out.diff> <repo-relative file> <old> <new> [<file> <old> <new> ...]
Builds a unified diff against /repo replacing the first occurrence of <old> by <new>."""
import difflib, sys
out = sys.argv[1]; args = sys.argv[2:]
chunks = []
for i in range(0, len(args), 3):
    f, old, new = args[i:i + 3]
    a = open("/repo/" + f).read()
    old = old.encode().decode("unicode_escape"); new = new.encode().decode("unicode_escape")
    assert old in a, f"pattern not found in {f}: {old!r}"
    b = a.replace(old, new, 1)
    chunks.append("".join(difflib.unified_diff(a.splitlines(True), b.splitlines(True), "a/" + f, "b/" + f)))
open(out, "w").write("".join(chunks))
print(open(out).read())
