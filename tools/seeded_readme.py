#!/venv/bin/python
"""Regenerates seeded/README.md from the meta.json files."""
import glob, json, os
rows = []
for f in sorted(glob.glob("/verif/seeded/*/meta.json")):
    m = json.load(open(f)); e = m.get("evaluation", {})
    rows.append((os.path.basename(os.path.dirname(f)), m["property"], m["summary"], m["needs"], ", ".join(e.get("checks_run", [])), ", ".join(e.get("caught_by", [])) or "none", e.get("note", "")))
out = ["# Seeded breaking changes", "",
       "Each directory holds a change to NREL/hive written by an independent sub-agent that was given only the text of one property and a scratch",
       "worktree of /repo (nothing from /verif): `patch.diff`, the agent's demonstration `demo.py` (exit 1 with the change, exit 0 without) and `meta.json`",
       "(what it breaks, what it needs in order to manifest, what was run). Every change was re-confirmed with `tools/eval_seed.sh` on a fresh scratch copy of",
       "/repo HEAD: demonstration fails with / passes without the change, pytest summary unchanged (273 passed, the same 8 sandbox failures), then the",
       "listed quick checks were run against the patched copy (`VERIF_REPO=<copy> ./check <ID> quick`). None of them is ever committed to /repo.", "",
       f"{len(rows)} changes; caught by at least one check in the quick tier: {sum(1 for r in rows if r[5] != 'none')}.", "",
       "| change | property | what was changed | checks run | caught by | note |", "|---|---|---|---|---|---|"]
for d, p, s, n, ran, caught, note in rows:
    out.append(f"| `{d}` | {p} | {s[:260]} | {ran} | **{caught}** | {note[:420]} |")
open("/verif/seeded/README.md", "w").write("\n".join(out) + "\n")
print(len(rows), "rows")
