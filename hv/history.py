"""History engine: a loaded world driven by *directives* that are resolved against the
live state, with monitors run after every step. Plain Python (no Hypothesis) so the same
interpreter serves generation (called from a RuleBasedStateMachine), replay and ddmin.

An op is a JSON list:
  ["instr", gen, kind, vclass, vsel, tclass, tsel, csel]  queue one instruction on scripted generator `gen`
  ["step"]                                                 advance one time step (co-simulation API)
  ["probe", kind, vclass, vsel, tclass, tsel, csel]        apply one instruction to the current state, observe, discard
  ["retain"] / ["branch", k]                               C16: keep a state / step a kept state twice
"""
from __future__ import annotations

import collections
from typing import Any, Dict, Iterable, List, Optional, Sequence, Tuple

from hv.base import Findings, PropertyViolation, Violation, quiet
from hv.worlds import World

INSTR_KINDS = [
    "Idle", "DispatchTrip", "DispatchStation", "ChargeStation", "ChargeBase",
    "DispatchBase", "ReserveBase", "OutOfService", "Reposition",
]
# next states a custom controller may build itself (Instruction is a public extension point: a subclass returns an
# InstructionResult with any next state and any route it likes; the activity's enter() is what has to refuse nonsense)
RAW_KINDS = ["BoardNow", "QueueNow", "TripRoute", "StationRoute", "BaseRoute", "RepositionRoute"]
RAW_ROUTES = ["direct", "from_elsewhere", "to_elsewhere", "empty", "reverse"]
VCLASSES = ["any", "idle", "moving", "carrying", "charging", "queueing", "parked", "oos", "low", "dispatched"]
TCLASSES = ["any", "here", "far", "full", "denied", "granted", "missing", "assigned"]
MOVING = ("DispatchTrip", "ServicingTrip", "DispatchStation", "DispatchBase", "Repositioning")


def sname(v) -> str:
    return type(v.vehicle_state).__name__


def grants(entity, vehicle) -> bool:
    """raw set arithmetic, independent of Membership.grant_access_*: public, or a fleet in common"""
    e = set(entity.membership.memberships)
    return (not e) or bool(e & set(vehicle.membership.memberships))


def _mk_scripted():
    from nrel.hive.dispatcher.instruction_generator.instruction_generator import InstructionGenerator

    class Scripted(InstructionGenerator):
        """emits whatever the test queued for this step; remembers the state it was handed
        (the public mid-step observation point: after pre-step updates and driver updates)"""

        def __init__(self, nm: str):
            self._nm = nm
            self.queue: List[Any] = []
            self.seen = None
            self.emitted: Tuple[Any, ...] = ()

        @property
        def name(self) -> str:
            return self._nm

        def generate_instructions(self, sim, env):
            self.seen = sim
            self.emitted = tuple(self.queue)
            self.queue = []
            return self, self.emitted

    # HIVE's update_instruction_generator looks a generator up by its *class* name while the table is keyed by .name:
    # every scripted generator gets a class of its own, named like the generator
    return lambda nm: type(nm, (Scripted,), {})(nm)


_RAW = None


def _mk_raw():
    """RawStateInstruction: a user-defined instruction that names the next activity itself, with a route planned by the controller"""
    global _RAW
    if _RAW is not None:
        return _RAW
    from dataclasses import dataclass

    from nrel.hive.dispatcher.instruction.instruction import Instruction
    from nrel.hive.dispatcher.instruction.instruction_result import InstructionResult
    from nrel.hive.state.vehicle_state.charge_queueing import ChargeQueueing
    from nrel.hive.state.vehicle_state.dispatch_base import DispatchBase
    from nrel.hive.state.vehicle_state.dispatch_station import DispatchStation
    from nrel.hive.state.vehicle_state.dispatch_trip import DispatchTrip
    from nrel.hive.state.vehicle_state.repositioning import Repositioning
    from nrel.hive.state.vehicle_state.servicing_trip import ServicingTrip
    from nrel.hive.util.exception import SimulationStateError

    @dataclass(frozen=True)
    class RawStateInstruction(Instruction):
        vehicle_id: str
        kind: str
        target_id: str
        charger_id: str
        route_mode: str
        other_id: str

        def apply_instruction(self, sim, env):
            v = sim.vehicles.get(self.vehicle_id)
            k = self.kind
            pool = sim.requests if k in ("BoardNow", "TripRoute") else sim.stations if k in ("QueueNow", "StationRoute") else sim.bases if k == "BaseRoute" else None
            tgt = pool.get(self.target_id) if pool is not None else (sim.stations.get(self.target_id) or sim.bases.get(self.target_id))
            if v is None or tgt is None:
                return SimulationStateError(f"raw instruction names a missing entity ({self.vehicle_id}, {self.target_id})"), None
            o = sim.stations.get(self.other_id) or sim.bases.get(self.other_id)
            other = o.position if o is not None else v.position
            rn = sim.road_network
            a, b = v.position, (tgt.destination_position if k == "BoardNow" else tgt.position)
            m = self.route_mode
            route = (rn.route(a, b) if m == "direct" else rn.route(tgt.position if k == "BoardNow" else other, b) if m == "from_elsewhere"
                     else rn.route(a, other) if m == "to_elsewhere" else () if m == "empty" else rn.route(b, a))
            vid = self.vehicle_id
            nxt = (ServicingTrip.build(vid, tgt, sim.sim_time, route) if k == "BoardNow" else
                   ChargeQueueing.build(vid, tgt.id, self.charger_id, sim.sim_time) if k == "QueueNow" else
                   DispatchTrip.build(vid, tgt.id, route) if k == "TripRoute" else
                   DispatchStation.build(vid, tgt.id, route, self.charger_id) if k == "StationRoute" else
                   DispatchBase.build(vid, tgt.id, route) if k == "BaseRoute" else Repositioning.build(vid, route))
            return None, InstructionResult(v.vehicle_state, nxt)

    _RAW = RawStateInstruction
    return _RAW


def _mk_capture():
    from nrel.hive.reporting.handler.handler import Handler

    class Capture(Handler):
        def __init__(self):
            self.steps: List[List[Tuple[str, Dict[str, Any]]]] = []

        def handle(self, reports, runner_payload):
            self.steps.append([(r.report_type.name, dict(r.report)) for r in reports])

        def close(self, runner_payload):
            pass

    return Capture


class Monitor:
    """Base class: one oracle. `prop` names the property it decides."""

    prop = "C00"

    def start(self, h: "History") -> None:
        pass

    def after_step(self, h: "History", before, after, events) -> Iterable[Violation]:
        return ()

    def after_probe(self, h: "History", before, after, instruction, vid) -> Iterable[Violation]:
        return ()

    def finish(self, h: "History") -> Iterable[Violation]:
        return ()


class History:
    def __init__(self, spec: Dict[str, Any], monitors: Sequence[Monitor], findings: Optional[Findings] = None,
                 raise_for: Optional[Sequence[str]] = None):
        self.spec = spec
        self.monitors = list(monitors)
        self.findings = findings or Findings()
        self.raise_for = set(raise_for) if raise_for is not None else {m.prop for m in self.monitors}
        self.ops: List[List[Any]] = []
        self.flags: set = set()
        self.stats = collections.Counter()
        self.labels = collections.Counter()
        self.known = collections.Counter()
        self.violation: Optional[Violation] = None
        self.retained: List[Tuple[Any, str]] = []
        self.request_memory: Dict[str, Any] = {}
        self.scripted_request_targets: set = set()  # requests a scripted controller named in a DispatchTrip instruction, or a client re-offered
        self.reoffered: Dict[str, set] = {}  # request id -> DispatchTrip instances that were under way when it changed fleet
        self.dead = False  # set when HIVE crashed outside the property's mechanism: rest of the case is skipped
        self.anchor_files: Tuple[str, ...] = tuple(spec.get("_anchor_files", ()))
        self.strict_plugs = (spec.get("dispatcher") or {}).get("charging_search_type") == "shortest_time_to_charge"
        Scripted, Capture = _mk_scripted(), _mk_capture()
        self.scripted = [Scripted(f"g{i}") for i in range(int(spec.get("n_scripted", 1)))]
        gens: List[Any] = list(self.scripted)
        # n_scripted == 0: a world run by the built-in generators alone (instr / rush directives are then ignored and counted)
        self.builtin = bool(spec.get("builtin")) or not self.scripted
        self.world = World(spec, gens=gens, builtin_first=self.builtin)
        self.rp = self.world.rp
        self.env = self.rp.e
        # the generators actually installed, in configured order (built-in recording proxies first)
        self.generators = list(self.rp.u.step_update.ordered_instruction_generators)
        self.builtin_gens = [g for g in self.generators if getattr(g, "builtin", False)]
        self.cap = Capture()
        self.env.reporter.add_handler(self.cap)
        self.step_no = 0
        for m in self.monitors:
            m.start(self)

    # ------------------------------------------------------------------ convenience
    @property
    def sim(self):
        return self.rp.s

    def mid(self, before):
        """the state the instruction generators were handed in the last step (after pre-step and driver updates); every
        generator of a step sees the same state. Falls back to `before` when no observing generator is installed."""
        for g in self.generators:
            s = getattr(g, "seen", None)
            if s is not None:
                return s
        return before

    def close(self) -> None:
        self.world.close()

    def flag(self, *names: str) -> None:
        self.flags.update(names)

    # ------------------------------------------------------------------ op interpreter
    def apply(self, op: Sequence[Any]) -> None:
        op = list(op)
        self.ops.append(op)
        if self.dead:
            return
        kind = op[0]
        if kind == "instr":
            self._op_instr(*op[1:])
        elif kind == "step":
            self._op_step()
        elif kind == "probe":
            self._op_probe(*op[1:])
        elif kind == "rush":
            self._op_rush(*op[1:])
        elif kind == "probeN":
            self._op_probe_batch(op[1])
        elif kind == "throttle":
            self._op_throttle(*op[1:])
        elif kind == "inject":
            self._op_inject(*op[1:])
        elif kind == "relocate":
            self._op_relocate(*op[1:])
        elif kind == "reinject":
            self._op_reinject(*op[1:])
        elif kind == "restate":
            self._op_restate(*op[1:])
        elif kind == "reoffer":
            self._op_reoffer(*op[1:])
        elif kind == "raw":
            self._op_raw(*op[1:])
        elif kind == "retain":
            self._op_retain()
        elif kind == "branch":
            self._op_branch(*op[1:])
        else:
            raise ValueError(f"unknown op {op}")

    def run(self, ops: Iterable[Sequence[Any]]) -> None:
        for op in ops:
            self.apply(op)

    def report(self, violations: Iterable[Violation]) -> None:
        for v in violations:
            fid = self.findings.match(v)
            if fid is not None:
                self.known[fid] += 1
                continue
            if v.prop in self.raise_for:
                self.violation = v
                raise PropertyViolation(v)

    # ------------------------------------------------------------------ directives
    def _vehicles(self, vclass: str):
        sim, env = self.sim, self.env
        out = []
        for v in sorted(sim.vehicles.values(), key=lambda x: x.id):
            n = sname(v)
            mech = env.mechatronics.get(v.mechatronics_id)
            ok = {
                "any": True,
                "idle": n == "Idle",
                "moving": n in MOVING,
                "carrying": n == "ServicingTrip",
                "charging": n in ("ChargingStation", "ChargingBase"),
                "queueing": n == "ChargeQueueing",
                "parked": n in ("ReserveBase", "ChargingBase"),
                "oos": n == "OutOfService",
                "low": mech is not None and mech.fuel_source_soc(v) < 0.05,
                "dispatched": n == "DispatchTrip",
            }[vclass]
            if ok:
                out.append(v)
        return out or sorted(sim.vehicles.values(), key=lambda x: x.id)

    def _pick_vehicle(self, vclass: int, vsel: int):
        c = self._vehicles(VCLASSES[vclass % len(VCLASSES)])
        return c[vsel % len(c)]

    def _pick_target(self, pool: Dict[str, Any], v, tclass: int, tsel: int, kind: str, plug: Optional[str] = None) -> str:
        tc = TCLASSES[tclass % len(TCLASSES)]
        ents = [pool[k] for k in sorted(pool.keys())]
        if tc == "missing" or not ents:
            return {"station": "sX", "base": "bX", "request": "rX"}[kind]

        def full(e) -> bool:
            if kind == "station":
                return any(cs.available_chargers == 0 for cs in e.state.values())
            if kind == "base":
                return e.available_stalls == 0
            return e.dispatched_vehicle is not None

        sel = {
            "any": lambda e: True,
            "here": lambda e: e.geoid == v.geoid,
            "far": lambda e: e.geoid != v.geoid,
            "full": full,
            "denied": lambda e: not grants(e, v),
            "granted": lambda e: grants(e, v),
            "assigned": full,
        }[tc]
        c = [e for e in ents if sel(e)] or ents
        return c[tsel % len(c)].id

    def _pick_charger(self, station, v, csel: int) -> str:
        from hv.worlds import ALL_PLUGS

        mech = self.env.mechatronics.get(v.mechatronics_id)
        mode = csel % 8
        installed = sorted(station.state.keys()) if station is not None else []
        if self.strict_plugs:
            # excluded by construction (counted): with charging_search_type=shortest_time_to_charge HIVE's
            # ranking raises when any vehicle queues for a plug its powertrain cannot use (assignment_ops ->
            # powercurve_ops.time_to_full); that crash belongs to none of the listed properties
            valid = [c for c in installed if mech is not None and mech.valid_charger(station.state[c].charger)]
            if mode > 3 or not valid:
                self.stats["excluded_wrong_energy_plug_choice"] += 1
            return valid[(csel // 8) % len(valid)] if valid else "NOPE"
        if mode <= 3 and installed and mech is not None:  # valid plug for this powertrain (half the time)
            valid = [c for c in installed if mech.valid_charger(station.state[c].charger)]
            if valid:
                return valid[(csel // 8) % len(valid)]
        if mode <= 5 and installed:
            return installed[(csel // 8) % len(installed)]
        if mode == 6:
            return ALL_PLUGS[(csel // 8) % len(ALL_PLUGS)]
        return "NOPE"

    def build_instruction(self, kind: int, vclass: int, vsel: int, tclass: int, tsel: int, csel: int):
        from nrel.hive.dispatcher.instruction import instructions as I

        sim = self.sim
        k = INSTR_KINDS[kind % len(INSTR_KINDS)]
        v = self._pick_vehicle(vclass, vsel)
        vid = v.id
        if k == "Idle":
            return I.IdleInstruction(vid)
        if k == "OutOfService":
            return I.OutOfServiceInstruction(vid)
        if k == "DispatchTrip":
            return I.DispatchTripInstruction(vid, self._pick_target(sim.requests, v, tclass, tsel, "request"))
        if k in ("DispatchStation", "ChargeStation"):
            sid = self._pick_target(sim.stations, v, tclass, tsel, "station")
            c = self._pick_charger(sim.stations.get(sid), v, csel)
            return (I.DispatchStationInstruction if k == "DispatchStation" else I.ChargeStationInstruction)(vid, sid, c)
        if k == "ChargeBase":
            bid = self._pick_target(sim.bases, v, tclass, tsel, "base")
            b = sim.bases.get(bid)
            st_ = sim.stations.get(b.station_id) if b is not None and b.station_id else None
            return I.ChargeBaseInstruction(vid, bid, self._pick_charger(st_, v, csel))
        if k == "DispatchBase":
            return I.DispatchBaseInstruction(vid, self._pick_target(sim.bases, v, tclass, tsel, "base"))
        if k == "ReserveBase":
            return I.ReserveBaseInstruction(vid, self._pick_target(sim.bases, v, tclass, tsel, "base"))
        # Reposition: destination is the link of some station/base/other vehicle (well-formed link ids only)
        ents = [sim.stations[s] for s in sorted(sim.stations.keys())] + [sim.bases[b] for b in sorted(sim.bases.keys())]
        ents += [x for x in sorted(sim.vehicles.values(), key=lambda x: x.id) if x.id != vid]
        tgt = ents[tsel % len(ents)] if ents else v
        return I.RepositionInstruction(vid, tgt.position.link_id)

    # ------------------------------------------------------------------ ops
    def _op_instr(self, gen: int, kind: int, vclass: int, vsel: int, tclass: int, tsel: int, csel: int) -> None:
        if not self.scripted:
            self.stats["directives_ignored_no_scripted_generator"] += 1
            return
        i = self.build_instruction(kind, vclass, vsel, tclass, tsel, csel)
        self.scripted[gen % len(self.scripted)].queue.append(i)
        self.stats["instructions_queued"] += 1
        if getattr(i, "request_id", None) is not None:
            self.scripted_request_targets.add(i.request_id)  # requests some scripted controller has (tried to) dispatch a vehicle to

    def _op_rush(self, tsel: int, csel: int, k: int) -> None:
        """send up to k vehicles that are idle or parked to one (station, plug) in the same step"""
        from nrel.hive.dispatcher.instruction import instructions as I

        sim = self.sim
        sids = sorted(sim.stations.keys())
        if not sids:
            return
        s = sim.stations[sids[tsel % len(sids)]]
        plugs = sorted(s.state.keys())
        c = plugs[csel % len(plugs)]
        cand = [v for v in sorted(sim.vehicles.values(), key=lambda x: x.id)
                if sname(v) in ("Idle", "ReserveBase", "Repositioning") and self.env.mechatronics[v.mechatronics_id].valid_charger(s.state[c].charger)]
        for v in (cand[: max(1, k)] if self.scripted else ()):
            self.scripted[0].queue.append(I.DispatchStationInstruction(v.id, s.id, c))
            self.stats["instructions_queued"] += 1

    def _op_step(self) -> None:
        from nrel.hive.app import hive_cosim

        before = self.rp
        n0 = len(self.cap.steps)
        try:
            with quiet():
                self.rp = hive_cosim.crank(self.rp, 1).runner_payload
        except Exception as exc:  # HIVE raised: bucket by (type, innermost nrel.hive frame)
            self._crashed(exc)
            return
        self.step_no += 1
        self.stats["steps"] += 1
        for r in before.s.requests.values():  # what a client that watched the last state remembers
            self.request_memory[r.id] = r
        events = [e for chunk in self.cap.steps[n0:] for e in chunk]
        for m in self.monitors:
            self.report(m.after_step(self, before.s, self.rp.s, events))

    def _crashed(self, exc: BaseException) -> None:
        """An exception escaping HIVE is a violation of the property under check only if the innermost
        nrel.hive frame lies in one of that property's anchor files (its mechanism crashed instead of
        answering); otherwise the case is abandoned and the crash bucket counted (never a violation,
        never a pass of anything observed after it)."""
        import traceback

        frames = [f for f in traceback.extract_tb(exc.__traceback__) if "/nrel/hive/" in f.filename]
        inner = frames[-1] if frames else None
        where = (inner.filename.split("/nrel/hive/")[-1] + ":" + inner.name) if inner else "outside-hive"
        bucket = f"{type(exc).__name__}@{where}"
        self.stats["crash:" + bucket] += 1
        self.dead = True
        self.flag("hive_crashed")
        if inner is not None and any(inner.filename.endswith(a) for a in self.anchor_files):
            v = Violation(next(iter(self.raise_for), "C00"), f"exception in the property's mechanism: {bucket}", {"message": str(exc)[:300]})
            self.report([v])

    def _op_probe(self, kind: int, vclass: int, vsel: int, tclass: int, tsel: int, csel: int) -> None:
        from nrel.hive.reporting.reporter import Reporter
        from nrel.hive.state.simulation_state.update.step_simulation_ops import apply_instructions

        i = self.build_instruction(kind, vclass, vsel, tclass, tsel, csel)
        env2 = self.env.set_reporter(Reporter())  # probes must not add events to the monitored history
        s = self.sim
        try:
            with quiet():
                s2 = apply_instructions(s, env2, (i,))
        except Exception as exc:
            self._crashed(exc)
            return
        self.stats["probes"] += 1
        for m in self.monitors:
            self.report(m.after_probe(self, s, s2, i, i.vehicle_id))

    def try_apply(self, sim, instruction):
        """one instruction applied to `sim` on the side (no events reach the monitored history); None when HIVE raised"""
        from nrel.hive.reporting.reporter import Reporter
        from nrel.hive.state.simulation_state.update.step_simulation_ops import apply_instructions

        try:
            with quiet():
                return apply_instructions(sim, self.env.set_reporter(Reporter()), (instruction,))
        except Exception as exc:
            self._crashed(exc)
            return None

    def oos_instruction_accepted(self, sim, vid: str) -> bool:
        """INSTRUCTION reports list the selected instructions whether or not they were accepted. Would an OutOfServiceInstruction
        for `vid`, applied alone to `sim` (the state the generators saw), be accepted? (side application, nothing adopted)"""
        from nrel.hive.dispatcher.instruction.instructions import OutOfServiceInstruction

        v0 = sim.vehicles.get(vid)
        s2 = self.try_apply(sim, OutOfServiceInstruction(vid)) if v0 is not None else None
        return s2 is not None and s2.vehicles[vid].vehicle_state.instance_id != v0.vehicle_state.instance_id

    def _op_probe_batch(self, directives) -> None:
        """apply several instructions (at most one per vehicle) at once, and separately one at a time in the same
        order; monitors with a `batch` method compare the two results"""
        from nrel.hive.reporting.reporter import Reporter
        from nrel.hive.state.simulation_state.update.step_simulation_ops import apply_instructions

        seen, instrs = set(), []
        for d in directives:
            i = self.build_instruction(*d)
            if i.vehicle_id not in seen:
                seen.add(i.vehicle_id)
                instrs.append(i)
        env2 = self.env.set_reporter(Reporter())
        s = self.sim
        try:
            with quiet():
                s2 = apply_instructions(s, env2, tuple(instrs))
                s3 = s
                for i in instrs:  # the same instructions one at a time
                    s3 = apply_instructions(s3, env2, (i,))
        except Exception as exc:
            self._crashed(exc)
            return
        self.stats["batch_probes"] += 1
        for m in self.monitors:
            fn = getattr(m, "batch", None)
            if fn is not None:
                self.report(fn(self, s, s2, instrs, s3))

    def build_raw(self, rkind: int, vclass: int, vsel: int, tclass: int, tsel: int, csel: int, rsel: int):
        sim = self.sim
        k = RAW_KINDS[rkind % len(RAW_KINDS)]
        v = self._pick_vehicle(vclass, vsel)
        charger = ""
        if k in ("BoardNow", "TripRoute"):
            # boarding is only possible from a DispatchTrip: the request the vehicle is on its way to, when there is one
            tid = v.vehicle_state.request_id if (k == "BoardNow" and sname(v) == "DispatchTrip" and tclass % 4) else self._pick_target(sim.requests, v, tclass, tsel, "request")
        elif k in ("QueueNow", "StationRoute"):
            tid = self._pick_target(sim.stations, v, tclass, tsel, "station")
            charger = self._pick_charger(sim.stations.get(tid), v, csel)
        elif k == "BaseRoute":
            tid = self._pick_target(sim.bases, v, tclass, tsel, "base")
        else:
            ids = sorted(sim.stations.keys()) + sorted(sim.bases.keys())
            tid = ids[tsel % len(ids)] if ids else "sX"
        others = sorted(sim.stations.keys()) + sorted(sim.bases.keys())
        other = others[(tsel + 1 + rsel // len(RAW_ROUTES)) % len(others)] if others else ""
        return _mk_raw()(v.id, k, tid, charger, RAW_ROUTES[rsel % len(RAW_ROUTES)], other)

    def _op_raw(self, mode: int, gen: int, rkind: int, vclass: int, vsel: int, tclass: int, tsel: int, csel: int, rsel: int) -> None:
        """a custom controller's own instruction type (mode 0: queued with a scripted generator for the next step; 1: single-instruction probe)"""
        from nrel.hive.reporting.reporter import Reporter
        from nrel.hive.state.simulation_state.update.step_simulation_ops import apply_instructions

        i = self.build_raw(rkind, vclass, vsel, tclass, tsel, csel, rsel)
        if mode % 2 == 0:
            if not self.scripted:
                self.stats["directives_ignored_no_scripted_generator"] += 1
                return
            self.scripted[gen % len(self.scripted)].queue.append(i)
            self.stats["instructions_queued"] += 1
            self.stats["raw_instructions_queued"] += 1
            if i.kind in ("BoardNow", "TripRoute"):
                self.scripted_request_targets.add(i.target_id)
            return
        s = self.sim
        try:
            with quiet():
                s2 = apply_instructions(s, self.env.set_reporter(Reporter()), (i,))
        except Exception as exc:
            self._crashed(exc)
            return
        self.stats["probes"] += 1
        self.stats["raw_probes"] += 1
        if s2.vehicles[i.vehicle_id].vehicle_state.instance_id != s.vehicles[i.vehicle_id].vehicle_state.instance_id:
            self.flag("raw_instruction_accepted")
            self.labels[f"raw_accepted:{i.kind}:{i.route_mode}"] += 1
        for m in self.monitors:
            self.report(m.after_probe(self, s, s2, i, i.vehicle_id))

    def _op_throttle(self, ssel: int, csel: int, fsel: int) -> None:
        """grid co-simulation style: limit a station's plug type to a fraction of its factory rate through the public
        Station.scale_charger_rate + modify_station_safe API (also in the middle of charging sessions; 0 = switched off)"""
        from nrel.hive.state.simulation_state import simulation_state_ops as ops

        sids = sorted(self.sim.stations.keys())
        if not sids:
            return
        s = self.sim.stations[sids[ssel % len(sids)]]
        plugs = sorted(s.state.keys())
        c = plugs[csel % len(plugs)]
        factor = [0.0, 0.001, 0.25, 0.5, 1.0][fsel % 5]  # switched off, trickle, limited, full
        factory = self.env.chargers.get(c)
        if factory is None or factory.rate <= 0:
            return
        cur = s.state[c].charger.rate
        res = s.set_charger_rate(c, factory.rate * factor)
        from returns.result import Failure

        if isinstance(res, Failure):
            return
        self.rp = self.rp._replace(s=ops.modify_station_safe(self.sim, res.unwrap()).unwrap())
        self.stats["plug_rate_changes"] += 1
        if factor < 1.0:
            self.flag("plug_throttled")

    def _op_inject(self, o_sel: int, d_sel: int, m_sel: int = 0) -> None:
        """co-simulation style demand injection: add a request to the current state through the public
        simulation_state_ops API, stamped with the current simulation time (possible even before the first step)"""
        import h3
        from nrel.hive.model.request.request import Request
        from nrel.hive.state.simulation_state import simulation_state_ops as ops
        from hv.worlds import _site

        sites = self.spec["sites"]
        res = int(self.sim.sim_h3_location_resolution)
        og = h3.geo_to_h3(*_site(self.spec, o_sel % len(sites)), res)
        dg = h3.geo_to_h3(*_site(self.spec, d_sel % len(sites)), res)
        fl = self.spec.get("fleet_ids") or []
        self._injected = getattr(self, "_injected", 0) + 1
        r = Request.build(f"x{self._injected}", og, dg, self.sim.road_network, self.sim.sim_time, 1, False, fleet_id=fl[o_sel % len(fl)] if fl else None, value=5.0)
        if fl and m_sel % 4:
            # a request source of its own may offer a request to several fleets, or re-offer it to another one, through the
            # public Request.set_membership (the file loader can only name one fleet)
            mode = m_sel % 4
            ids = tuple(fl[:2]) if mode == 1 else (fl[(o_sel + 1 + m_sel // 4) % len(fl)],) if mode == 2 else tuple(fl)
            r = r.set_membership(ids)
            self.flag("request_membership_set_after_build")
        res = ops.add_request_safe(self.sim, r)
        self.rp = self.rp._replace(s=res.unwrap())
        self.stats["requests_injected"] += 1
        self.flag("request_injected")

    def _op_reoffer(self, rsel: int, fsel: int) -> None:
        """a request source of its own re-offers a waiting request to another fleet (Request.set_membership + modify_request_safe),
        preferably one that already has a vehicle on its way. Vehicles that were travelling to it before keep travelling
        (they started when they had access); what matters is what starts afterwards."""
        from returns.result import Success
        from nrel.hive.state.simulation_state import simulation_state_ops as ops

        fl = self.spec.get("fleet_ids") or []
        rs = sorted(self.sim.requests.values(), key=lambda r: (r.dispatched_vehicle is None, r.id))
        if not fl or not rs:
            return
        r = rs[rsel % min(len(rs), 4)]
        ids = (fl[fsel % len(fl)],)
        if set(ids) == set(r.membership.memberships):
            return
        try:
            with quiet():
                res = ops.modify_request_safe(self.sim, r.set_membership(ids))
        except Exception as exc:
            self._crashed(exc)
            return
        if isinstance(res, Success):
            under_way = {v.vehicle_state.instance_id for v in self.sim.vehicles.values() if sname(v) == "DispatchTrip" and v.vehicle_state.request_id == r.id}
            self.reoffered.setdefault(r.id, set()).update(under_way)
            self.scripted_request_targets.add(r.id)
            self.rp = self.rp._replace(s=res.unwrap())
            self.stats["requests_reoffered"] += 1
            if under_way:
                self.flag("request_reoffered_while_vehicle_under_way")

    def _op_restate(self, sel: int) -> None:
        """a client that keeps its own copies of the requests (a pricing agent, say) hands one back through the generic
        entity API (modify_entity_safe): the current object if the request is still waiting (a no-op), else its stale copy
        of a request that has since been picked up or cancelled (HIVE must refuse it). Whatever HIVE answers is adopted."""
        from returns.result import Success
        from nrel.hive.state.simulation_state import simulation_state_ops as ops

        for r in self.sim.requests.values():
            self.request_memory[r.id] = r
        ids = sorted(self.request_memory.keys())
        if not ids:
            return
        rid = ids[sel % len(ids)]
        stale = rid not in self.sim.requests
        obj = self.request_memory[rid] if stale else self.sim.requests[rid]
        try:
            with quiet():
                res = ops.modify_entity_safe(self.sim, obj)
        except Exception as exc:
            self._crashed(exc)
            return
        self.stats["stale_request_updates_tried" if stale else "current_request_handed_back"] += 1
        if isinstance(res, Success):
            self.rp = self.rp._replace(s=res.unwrap())
            if stale:
                self.stats["stale_request_updates_accepted"] += 1
                self.flag("stale_request_update_accepted")

    def _op_reinject(self, gsel: int) -> None:
        """co-simulation style: take one of the installed instruction generators and hand the very same object back
        through runner_payload_ops.update_instruction_generator (a no-op by contract: order and content stay as configured)"""
        from nrel.hive.runner import runner_payload_ops as rpo

        g = self.generators[gsel % len(self.generators)]
        from returns.result import Success

        try:
            with quiet():
                res = rpo.update_instruction_generator_safe(self.rp, g)
        except Exception as exc:
            self._crashed(exc)
            return
        if not isinstance(res, Success):
            self.stats["generator_hand_back_refused"] += 1
            return
        self.rp = res.unwrap()
        self.stats["generators_handed_back"] += 1
        if g is not self.generators[-1]:
            self.flag("non_last_generator_handed_back")

    def _op_relocate(self, which: int, esel: int, site_sel: int) -> None:
        """co-simulation style entity editing: hand HIVE a station / base whose position differs from the registered one
        (a client that re-surveyed it) through the public modify_*_safe API. Whatever HIVE answers is adopted: a refusal
        leaves the state alone, an acceptance becomes the state every monitor judges from then on."""
        import dataclasses

        import h3
        from returns.result import Success
        from nrel.hive.state.simulation_state import simulation_state_ops as ops
        from hv.worlds import _site

        sim = self.sim
        pool = sim.stations if which % 2 == 0 else sim.bases
        ids = sorted(pool.keys())
        if not ids:
            return
        e = pool[ids[esel % len(ids)]]
        sites = self.spec["sites"]
        g = h3.geo_to_h3(*_site(self.spec, site_sel % len(sites)), int(self.sim.sim_h3_location_resolution))
        moved = dataclasses.replace(e, position=sim.road_network.position_from_geoid(g))
        if moved.geoid == e.geoid:
            return
        try:
            with quiet():
                res = (ops.modify_station_safe if which % 2 == 0 else ops.modify_base_safe)(sim, moved)
        except Exception as exc:
            self._crashed(exc)
            return
        self.stats["relocations_tried"] += 1
        if isinstance(res, Success):
            self.rp = self.rp._replace(s=res.unwrap())
            self.stats["relocations_accepted"] += 1
            self.flag("entity_relocated")

    def _op_retain(self) -> None:
        from hv.canon import fingerprint

        if len(self.retained) < 8:
            self.retained.append((self.sim, fingerprint(self.sim, ids=True)))
            self.stats["retained"] += 1
            for m in self.monitors:
                fn = getattr(m, "on_retain", None)
                if fn is not None:
                    fn(self)

    def _op_branch(self, k: int) -> None:
        for m in self.monitors:
            fn = getattr(m, "branch", None)
            if fn is not None:
                self.report(fn(self, k))

    def finish(self) -> None:
        for m in self.monitors:
            self.report(m.finish(self))


# --------------------------------------------------------------------------- replay / ddmin


def replay(case: Dict[str, Any], monitors_factory, prop: str, use_findings: bool = True) -> Tuple[Optional[Violation], "History"]:
    """Re-run a recorded case with a plain loop. Returns (violation | None, history)."""
    h = History(case["world"], monitors_factory(), findings=Findings() if use_findings else _NoFindings(), raise_for=[prop])
    try:
        try:
            h.run(case["ops"])
            h.finish()
        except PropertyViolation as pv:
            return pv.violation, h
        return None, h
    finally:
        h.close()


class _NoFindings(Findings):
    def __init__(self):
        self.findings, self.fixed = [], []


def ddmin(case: Dict[str, Any], monitors_factory, prop: str, key: str, budget_s: float = 40.0) -> Dict[str, Any]:
    """Delta-debug the op log: smallest sub-sequence found (within a wall-clock budget that only
    bounds the minimisation effort, never the verdict) that still yields the same violation key."""
    import time

    t0 = time.time()
    ops = list(case["ops"])

    def fails(cand: List[Any]) -> bool:
        v, _ = replay({"world": case["world"], "ops": cand}, monitors_factory, prop)
        return v is not None and v.key == key

    # drop everything after the failing op first
    n = 2
    while len(ops) >= 2 and time.time() - t0 < budget_s:
        chunk = max(1, len(ops) // n)
        reduced = False
        for i in range(0, len(ops), chunk):
            cand = ops[:i] + ops[i + chunk:]
            if cand and fails(cand):
                ops, n, reduced = cand, max(n - 1, 2), True
                break
            if time.time() - t0 > budget_s:
                break
        if not reduced:
            if chunk == 1:
                break
            n = min(len(ops), n * 2)
    return {"world": case["world"], "ops": ops}
