"""Shared plumbing: environment pinning, quieting HIVE, violations, known findings,
sharded execution, evidence files, exit codes.

Exit codes of every check: 0 held on everything explored; 1 + a line
``VIOLATION property=<id> replay=<path>``; 2 harness error / inconclusive.
"""
from __future__ import annotations

import collections
import contextlib
import hashlib
import io
import json
import logging
import multiprocessing
import os
import re
import sys
import time
import traceback
import warnings
from pathlib import Path
from typing import Any, Callable, Dict, Iterable, List, Optional

VERIF = Path(__file__).resolve().parent.parent
REPO = Path(os.environ.get("VERIF_REPO", "/repo"))
SCRATCH_ROOT = Path("/dev/shm") if Path("/dev/shm").is_dir() else Path("/var/tmp")
NCPU = int(os.environ.get("HV_PROCS", "0")) or min(16, os.cpu_count() or 4)

TOL = 1e-6  # absolute tolerance of ledger identities (kWh, gal, km, currency)


def hush() -> None:
    """Silence HIVE (logging, warnings); its stdout prints are redirected by `quiet`."""
    warnings.filterwarnings("ignore")
    logging.disable(logging.CRITICAL)
    _fast_yaml()


def _fast_yaml() -> None:
    """HIVE re-parses its powertrain/powercurve YAML resources on every scenario load with the pure-Python
    PyYAML parser (~0.1 s per load, most of a generated case). libyaml's CSafeLoader builds the same
    objects with the same SafeConstructor/Resolver; using it only makes the harness ~3x faster."""
    try:
        import yaml

        if getattr(yaml, "_hv_fast", False) or not hasattr(yaml, "CSafeLoader"):
            return

        def safe_load(stream):
            return yaml.load(stream, Loader=yaml.CSafeLoader)

        yaml.safe_load = safe_load
        yaml._hv_fast = True
    except Exception:
        pass


@contextlib.contextmanager
def quiet():
    """Swallow anything HIVE prints on stdout/stderr (fs.find_scenario, tqdm)."""
    out, err = io.StringIO(), io.StringIO()
    with contextlib.redirect_stdout(out), contextlib.redirect_stderr(err):
        yield


def seed_env() -> int:
    try:
        return int(os.environ.get("VERIF_SEED", "1"))
    except ValueError:
        return 1


def jhash(obj: Any) -> str:
    return hashlib.sha1(json.dumps(obj, sort_keys=True, default=str).encode()).hexdigest()[:16]


# --------------------------------------------------------------------------- violations


class Violation:
    """One observed breach of a property.

    `key` is a short stable signature naming *which clause* failed and in what
    circumstance (used for known-finding matching and root-cause bucketing);
    `detail` is JSON-able context for the replay file.
    """

    __slots__ = ("prop", "key", "detail")

    def __init__(self, prop: str, key: str, detail: Any = None):
        self.prop, self.key, self.detail = prop, key, detail

    def to_json(self) -> Dict[str, Any]:
        return {"property": self.prop, "key": self.key, "detail": _jsonable(self.detail)}

    def __repr__(self) -> str:
        return f"Violation({self.prop}: {self.key}: {str(self.detail)[:300]})"


class PropertyViolation(AssertionError):
    def __init__(self, violation: Violation):
        super().__init__(repr(violation))
        self.violation = violation


class Inconclusive(Exception):
    """Harness problem or out-of-domain crash: exit 2, never a violation."""


def _jsonable(o: Any) -> Any:
    try:
        json.dumps(o)
        return o
    except TypeError:
        if isinstance(o, dict):
            return {str(k): _jsonable(v) for k, v in o.items()}
        if isinstance(o, (list, tuple, set, frozenset)):
            return [_jsonable(x) for x in o]
        return repr(o)


# --------------------------------------------------------------------------- known findings


class Findings:
    """KNOWN_FINDINGS.json: {"findings": [{"property","id","signature","what"}], "fixed": [...]}

    A `finding` suppresses exactly the violations whose key matches its
    `signature` regex (fullmatch) for that property; `fixed` entries suppress
    nothing. The file is read-only at run time.
    """

    def __init__(self, path: Optional[Path] = None):
        path = path or (VERIF / "KNOWN_FINDINGS.json")
        data = json.loads(path.read_text()) if path.exists() else {}
        self.findings = data.get("findings", [])
        self.fixed = data.get("fixed", [])

    def for_property(self, prop: str) -> List[Dict[str, Any]]:
        return [f for f in self.findings if f["property"] == prop]

    def match(self, v: Violation) -> Optional[str]:
        for f in self.findings:
            if f["property"] == v.prop and re.fullmatch(f["signature"], v.key):
                return f["id"]
        return None


# --------------------------------------------------------------------------- shard results


class ShardResult:
    """What one worker process reports back (all plain data)."""

    def __init__(self):
        self.stats = collections.Counter()  # evaluations, steps, ...
        self.labels = collections.Counter()  # classification histogram
        self.nontrivial = set()  # hashes of distinct non-trivial cases
        self.samples: List[Any] = []
        self.known = collections.Counter()  # finding id -> hits
        self.failure: Optional[Dict[str, Any]] = None  # {"violation":..., "case":...}
        self.error: Optional[str] = None  # harness error text

    def dump(self) -> Dict[str, Any]:
        return {
            "stats": dict(self.stats),
            "labels": dict(self.labels),
            "nontrivial": sorted(self.nontrivial),
            "samples": self.samples,
            "known": dict(self.known),
            "failure": self.failure,
            "error": self.error,
        }


def _shard_entry(args):
    fn_module, fn_name, kwargs = args
    hush()
    t0 = time.time()
    try:
        mod = __import__(fn_module, fromlist=[fn_name])
        res: ShardResult = getattr(mod, fn_name)(**kwargs)
        d = res.dump()
        d["wall_s"] = round(time.time() - t0, 1)
        return d
    except Exception:  # harness error: reported as exit 2 by the parent
        r = ShardResult()
        r.error = traceback.format_exc()
        return r.dump()


def run_shards(fn_module: str, fn_name: str, shard_kwargs: List[Dict[str, Any]]) -> List[Dict[str, Any]]:
    """Run `fn_module.fn_name(**kw)` for each kw in worker processes (spawned fresh:
    no state leaks from the parent, each worker imports HIVE itself)."""
    n = min(NCPU, len(shard_kwargs))
    jobs = [(fn_module, fn_name, kw) for kw in shard_kwargs]
    if n <= 1:
        return [_shard_entry(j) for j in jobs]
    ctx = multiprocessing.get_context("spawn")
    with ctx.Pool(n, maxtasksperchild=1) as pool:
        return pool.map(_shard_entry, jobs, chunksize=1)


def merge(results: Iterable[Dict[str, Any]]) -> Dict[str, Any]:
    m = {
        "stats": collections.Counter(),
        "labels": collections.Counter(),
        "nontrivial": set(),
        "samples": [],
        "known": collections.Counter(),
        "failures": [],
        "errors": [],
        "shard_wall_s": [r.get("wall_s") for r in results],
    }
    for r in results:
        m["stats"].update(r["stats"])
        m["labels"].update(r["labels"])
        m["nontrivial"].update(r["nontrivial"])
        m["samples"].extend(r["samples"][:2])
        m["known"].update(r["known"])
        if r["failure"]:
            m["failures"].append(r["failure"])
        if r["error"]:
            m["errors"].append(r["error"])
    return m


# --------------------------------------------------------------------------- evidence


def write_evidence(
    prop: str,
    tier: str,
    seed: int,
    wall_s: float,
    evaluations: int,
    distinct_nontrivial: int,
    rule: str,
    samples: List[Any],
    assumptions: List[str],
    violations: int,
    extra: Optional[Dict[str, Any]] = None,
) -> Path:
    cov = {
        "evaluations": int(evaluations),
        "distinct_nontrivial": int(distinct_nontrivial),
        "rule": rule,
        "samples": _jsonable(samples[:5]) or ["(no sample recorded)"],
    }
    cov.update(_jsonable(extra or {}))
    ev = {
        "property_id": prop,
        "tier": tier,
        "seed": int(seed),
        "level": "exploration",
        "coverage": cov,
        "assumptions": assumptions,
        "wall_s": round(wall_s, 2),
        "violations": int(violations),
    }
    # runs against mutated copies of /repo (tools/mutant.sh, tools/eval_seed.sh) must not overwrite the evidence of the real tree
    d = Path(os.environ["HV_EVIDENCE_DIR"]) if os.environ.get("HV_EVIDENCE_DIR") else VERIF / "evidence"
    d.mkdir(parents=True, exist_ok=True)
    p = d / f"{prop}.json"
    p.write_text(json.dumps(ev, indent=1, sort_keys=True) + "\n")
    return p


def write_replay(prop: str, case: Dict[str, Any], violation: Dict[str, Any], seed: int) -> Path:
    d = VERIF / "out" / "replays"
    d.mkdir(parents=True, exist_ok=True)
    body = {"property": prop, "case": case, "expect": violation}
    p = d / f"{prop}-seed{seed}-{jhash(body)}.json"
    p.write_text(json.dumps(_jsonable(body), indent=1, sort_keys=True) + "\n")
    return p


def corpus(prop: str) -> List[Path]:
    d = VERIF / "replays" / prop
    return sorted(d.glob("*.json")) if d.is_dir() else []
