"""Component-level property checks: a Hypothesis @given test over pure-data cases with an
explicit oracle function `check_case(case) -> (violations, flags, stats)`. The shrunk failing
case is the replay file; replay calls `check_case` directly (no Hypothesis)."""
from __future__ import annotations

import collections
from typing import Any, Callable, Dict, Iterable, List, Optional, Set, Tuple

from hv.base import Findings, PropertyViolation, ShardResult, Violation, jhash

CheckFn = Callable[[Dict[str, Any]], Tuple[List[Violation], Set[str], Dict[str, int]]]


def run(prop: str, strategy, check_case: CheckFn, nontrivial: Callable[[Set[str]], bool], res: ShardResult,
        cases: int, seed: int, kind: str, shrink: bool = True, sample_fn: Optional[Callable[[Dict[str, Any]], Any]] = None) -> None:
    import hypothesis
    from hypothesis import HealthCheck, Phase, Verbosity, given, settings

    findings = Findings()

    @hypothesis.seed(seed)
    @settings(max_examples=cases, deadline=None, database=None, derandomize=False, report_multiple_bugs=False,
              suppress_health_check=list(HealthCheck), print_blob=False, verbosity=Verbosity.quiet,
              phases=(Phase.generate, Phase.shrink) if shrink else (Phase.generate,))
    @given(strategy)
    def test(case):
        case = dict(case)
        case["kind"] = kind
        res.stats["evaluations"] += 1
        res.stats[kind + "_cases"] += 1
        violations, flags, stats = check_case(case)
        for k, v in stats.items():
            res.stats[k] += v
        for f in flags:
            res.labels["flag:" + f] += 1
        bad = None
        for v in violations:
            fid = findings.match(v)
            if fid is not None:
                res.known[fid] += 1
            elif v.prop == prop and bad is None:
                bad = v
        if bad is not None:
            res.failure = {"violation": bad.to_json(), "case": case}
            raise PropertyViolation(bad)
        if nontrivial(flags):
            h = jhash(case)
            if h not in res.nontrivial:
                res.nontrivial.add(h)
                if len([s for s in res.samples if s.get("kind") == kind]) < 2:
                    res.samples.append({"kind": kind, "case": sample_fn(case) if sample_fn else case, "observed": sorted(flags)})

    try:
        test()
    except PropertyViolation:
        pass
    except Exception:
        if res.failure is None:
            raise


def replay(prop: str, check_case: CheckFn, case: Dict[str, Any]) -> Optional[Violation]:
    findings = Findings()
    violations, _, _ = check_case(case)
    mine = [v for v in violations if v.prop == prop]
    for v in mine:
        if findings.match(v) is None:
            return v
    return mine[0] if mine else None  # only known findings reproduce: the caller reports them as such
