"""Generic driver for properties decided on step histories: wraps hv.history.History in a
Hypothesis RuleBasedStateMachine, runs it in sharded worker processes, minimises failures
and turns them into replay files.
"""
from __future__ import annotations

import time
from typing import Any, Callable, Dict, List, Optional, Sequence

from hv.base import Findings, PropertyViolation, ShardResult, Violation, jhash
from hv.history import INSTR_KINDS, TCLASSES, VCLASSES, History, ddmin, replay
from hv.worlds import st_world, world_summary


class HistoryProperty:
    """Configuration of one history-decided property."""

    def __init__(self, prop: str, monitors: Callable[[], list], profile: Dict[str, Any],
                 nontrivial: Callable[[set], bool], rule: str, assumptions: List[str],
                 quick=(16, 40, 30), thorough=(16, 600, 60), probes: bool = False, retains: bool = False,
                 floors: Optional[Dict[str, int]] = None, instr_bias: Optional[Dict[str, Any]] = None,
                 level2: Optional[Callable[[str, int], Any]] = None):
        self.prop, self.monitors, self.profile = prop, monitors, profile
        self.nontrivial, self.rule, self.assumptions = nontrivial, rule, assumptions
        self.quick, self.thorough = quick, thorough  # (shards, cases per shard, rules per case)
        self.probes, self.retains = probes, retains
        self.floors = floors or {}
        self.instr_bias = instr_bias or {}


def _machine(cfg: HistoryProperty, res: ShardResult, max_rules: int):
    from hypothesis import strategies as st
    from hypothesis.stateful import RuleBasedStateMachine, initialize, precondition, rule

    findings = Findings()
    kinds = cfg.instr_bias.get("kinds") or list(range(len(INSTR_KINDS)))
    vcl = cfg.instr_bias.get("vclasses") or list(range(len(VCLASSES)))
    tcl = cfg.instr_bias.get("tclasses") or list(range(len(TCLASSES)))
    i_args = dict(
        gen=st.integers(0, 2), kind=st.sampled_from(kinds), vclass=st.sampled_from(vcl), vsel=st.integers(0, 9),
        tclass=st.sampled_from(tcl), tsel=st.integers(0, 9), csel=st.integers(0, 31),
    )

    class M(RuleBasedStateMachine):
        def __init__(self):
            super().__init__()
            self.h: Optional[History] = None

        @initialize(w=st_world(cfg.profile), pre=st.lists(st.tuples(st.integers(0, 9), st.integers(0, 9)), max_size=2) if cfg.instr_bias.get("inject") else st.just([]))
        def init(self, w, pre):
            self.h = History(w, cfg.monitors(), findings=findings, raise_for=[cfg.prop])
            res.stats["evaluations"] += 1
            for o, d in pre:  # demand injected before the first step (simulation time = start time)
                self._do(["inject", o, d])

        def _do(self, op):
            try:
                self.h.apply(op)
            except PropertyViolation as pv:
                res.failure = {"violation": pv.violation.to_json(), "case": {"world": self.h.spec, "ops": list(self.h.ops)}}
                raise

        @rule(**i_args)
        def instr(self, gen, kind, vclass, vsel, tclass, tsel, csel):
            self._do(["instr", gen, kind, vclass, vsel, tclass, tsel, csel])

        @rule(**i_args)
        def instr_then_step(self, gen, kind, vclass, vsel, tclass, tsel, csel):
            self._do(["instr", gen, kind, vclass, vsel, tclass, tsel, csel])
            self._do(["step"])

        @rule(n=st.integers(1, 4))
        def step(self, n):
            for _ in range(n):
                self._do(["step"])

        if cfg.instr_bias.get("meddle"):

            # a clumsy controller: an instruction that HIVE has to refuse (charge / park at a place the vehicle is not at, a
            # target that does not exist) addressed to a vehicle that is on its way to a request, then time passes
            @rule(gen=st.integers(0, 2), kind=st.sampled_from([3, 4, 6, 3, 4, 6, 1]), vsel=st.integers(0, 9), tclass=st.sampled_from([2, 2, 6]), tsel=st.integers(0, 9),
                  csel=st.integers(0, 31), n=st.integers(1, 3))
            def meddle(self, gen, kind, vsel, tclass, tsel, csel, n):
                self._do(["instr", gen, kind, 9, vsel, tclass, tsel, csel])
                for _ in range(n):
                    self._do(["step"])

        if cfg.instr_bias.get("raw"):

            @rule(mode=st.integers(0, 1), gen=st.integers(0, 2), rkind=st.sampled_from(cfg.instr_bias.get("raw_kinds") or [0, 0, 1, 2, 3, 4, 5]), vclass=st.sampled_from([0, 1, 2, 9, 9, 9, 4, 6]),
                  vsel=st.integers(0, 9), tclass=st.sampled_from(cfg.instr_bias.get("raw_tclasses") or [0, 1, 2, 2, 5]), tsel=st.integers(0, 9), csel=st.integers(0, 31), rsel=st.integers(0, 14))
            def raw(self, mode, gen, rkind, vclass, vsel, tclass, tsel, csel, rsel):
                self._do(["raw", mode, gen, rkind, vclass, vsel, tclass, tsel, csel, rsel])
                if mode % 2 == 0:
                    self._do(["step"])

        if cfg.instr_bias.get("rush"):

            @rule(tsel=st.integers(0, 3), csel=st.integers(0, 3), k=st.integers(2, 8))
            def rush(self, tsel, csel, k):
                self._do(["rush", tsel, csel, k])

        if cfg.probes:

            @rule(kind=i_args["kind"], vclass=i_args["vclass"], vsel=i_args["vsel"], tclass=i_args["tclass"], tsel=i_args["tsel"], csel=i_args["csel"])
            def probe(self, kind, vclass, vsel, tclass, tsel, csel):
                self._do(["probe", kind, vclass, vsel, tclass, tsel, csel])

        if cfg.instr_bias.get("throttle"):

            @rule(ssel=st.integers(0, 5), csel=st.integers(0, 3), fsel=st.integers(0, 4))
            def throttle(self, ssel, csel, fsel):
                self._do(["throttle", ssel, csel, fsel])

        if cfg.instr_bias.get("reinject"):

            @rule(gsel=st.integers(0, 5))
            def reinject(self, gsel):
                self._do(["reinject", gsel])

        if cfg.instr_bias.get("reoffer"):

            @rule(rsel=st.integers(0, 3), fsel=st.integers(0, 2))
            def reoffer(self, rsel, fsel):
                self._do(["reoffer", rsel, fsel])

        if cfg.instr_bias.get("restate"):

            @rule(sel=st.integers(0, 40))
            def restate(self, sel):
                self._do(["restate", sel])

        if cfg.instr_bias.get("relocate"):

            @rule(which=st.integers(0, 1), esel=st.integers(0, 5), site=st.integers(0, 9))
            def relocate(self, which, esel, site):
                self._do(["relocate", which, esel, site])

        if cfg.instr_bias.get("inject"):

            @rule(o=st.integers(0, 9), d=st.integers(0, 9), m=st.integers(0, 11))
            def inject(self, o, d, m):
                self._do(["inject", o, d, m])

        if cfg.probes and cfg.instr_bias.get("batches"):

            @rule(ds=st.lists(st.tuples(i_args["kind"], i_args["vclass"], i_args["vsel"], i_args["tclass"], i_args["tsel"], i_args["csel"]).map(list), min_size=2, max_size=5))
            def probe_batch(self, ds):
                self._do(["probeN", ds])

        if cfg.retains:

            @rule()
            def retain(self):
                self._do(["retain"])

            @precondition(lambda self: self.h is not None and self.h.retained)
            @rule(k=st.integers(0, 47))
            def branch(self, k):
                self._do(["branch", k])

        def teardown(self):
            h = self.h
            if h is None:
                return
            try:
                if h.violation is None:
                    try:
                        h.finish()
                    except PropertyViolation as pv:
                        res.failure = {"violation": pv.violation.to_json(), "case": {"world": h.spec, "ops": list(h.ops)}}
                        raise
            finally:
                res.stats.update({k: v for k, v in h.stats.items()})
                res.labels.update(h.labels)
                res.known.update(h.known)
                for f in h.flags:
                    res.labels["flag:" + f] += 1
                res.labels["net:" + str(h.spec.get("net"))] += 1
                if h.violation is None and cfg.nontrivial(h.flags):
                    hsh = jhash([h.spec, h.ops])
                    if hsh not in res.nontrivial:
                        res.nontrivial.add(hsh)
                        if len(res.samples) < 3:
                            res.samples.append({"world": world_summary(h.spec), "ops": h.ops[:60], "n_ops": len(h.ops), "observed": sorted(h.flags), "stats": dict(h.stats)})
                h.close()

    return M


def shard(cfg: HistoryProperty, tier: str, seed: int, shard_idx: int) -> ShardResult:
    import hypothesis
    from hypothesis import HealthCheck, Phase, Verbosity, settings
    from hypothesis.stateful import run_state_machine_as_test

    _, cases, rules = cfg.quick if tier == "quick" else cfg.thorough
    res = ShardResult()
    M = _machine(cfg, res, rules)
    stt = settings(
        max_examples=cases, stateful_step_count=rules, deadline=None, database=None, derandomize=False,
        report_multiple_bugs=False, suppress_health_check=list(HealthCheck),
        phases=(Phase.generate,), print_blob=False, verbosity=Verbosity.quiet,
    )
    try:
        run_state_machine_as_test(hypothesis.seed(seed * 1000 + shard_idx)(M), settings=stt)
    except PropertyViolation:
        pass  # res.failure holds the case
    except Exception as e:
        if res.failure is None:
            raise
    return res


def minimise_and_replayable(cfg: HistoryProperty, failure: Dict[str, Any], budget_s: float = 45.0) -> Dict[str, Any]:
    key = failure["violation"]["key"]
    case = failure["case"]
    v, _ = replay(case, cfg.monitors, cfg.prop)
    if v is None or v.key != key:
        return case  # not reproducible by plain replay with this key: keep the raw case
    return ddmin(case, cfg.monitors, cfg.prop, key, budget_s=budget_s)


def replay_case(cfg: HistoryProperty, case: Dict[str, Any]) -> Optional[Violation]:
    v, _ = replay(case, cfg.monitors, cfg.prop)
    return v


def install(ns: Dict[str, Any], cfg: HistoryProperty) -> None:
    """define the module-level interface (nshards, shard, replay, minimise, RULE, ...) for a property
    that is decided by the history engine alone"""
    ns["CFG"] = cfg
    ns["RULE"], ns["ASSUMPTIONS"] = cfg.rule, cfg.assumptions
    ns.setdefault("FLOORS", {})
    ns["nshards"] = lambda tier: (cfg.quick if tier == "quick" else cfg.thorough)[0]
    ns["shard"] = lambda tier, seed, idx: shard(cfg, tier, seed, idx)
    ns["replay"] = lambda case: replay_case(cfg, case)
    ns["minimise"] = lambda failure: minimise_and_replayable(cfg, failure)


COMMON_ASSUMPTIONS = [
    "pooling activities are unreachable from any input (ServicingPoolingTrip.enter requires a previous DISPATCH_POOLING_TRIP activity) and are not generated; the allows_pooling request column is left out, as in every shipped request file",
    "a base's station is co-located with the base, as the input documentation says",
    "vehicles are only sent to queue for plugs of the wrong energy type when charging_search_type is not shortest_time_to_charge (HIVE's ranking raises in that combination; counted as excluded_wrong_energy_plug_choice)",
    "PYTHONHASHSEED pinned to 0 for the check process; HIVE's stdout/logging redirected",
    "time steps of history checks are 15-600 s; search resolution 7-8 and search radius 5-10 km (ring search cost), component checks cover 1 s steps and other resolutions",
]
