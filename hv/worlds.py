"""Pure-data world specs: Hypothesis strategies, a writer to HIVE's documented input
files, and a loader that goes through HIVE's own `load_config`/`load_simulation`.

Going through the real loader keeps the generators *sound*: only inputs HIVE's
own parsers accept are ever produced.
"""
from __future__ import annotations

import json
import shutil
import tempfile
from pathlib import Path
from typing import Any, Dict, List, Optional, Sequence, Tuple

import yaml
from hypothesis import strategies as st

from hv import graphs
from hv.base import SCRATCH_ROOT, quiet

# 12 sites on a jittered lattice inside downtown Denver (so the same specs work on the
# straight-line network, generated street graphs and the shipped Denver graph);
# 100 m - 3 km apart. Worlds index into this pool *with replacement*: co-located
# entities are the norm, which is where ties and contention come from.
SITE_POOL: List[Tuple[float, float]] = [
    (39.7450, -104.9930),
    (39.7450, -104.9880),
    (39.7450, -104.9820),
    (39.7485, -104.9930),
    (39.7485, -104.9880),
    (39.7485, -104.9820),
    (39.7520, -104.9930),
    (39.7520, -104.9880),
    (39.7520, -104.9820),
    (39.7555, -104.9905),
    (39.7590, -104.9855),
    (39.7459, -104.9880),  # 100 m north of site 1
]
SCHEDULE_IDS = ["sh0", "Late", "NIGHT", "day_2"]  # ids are free text: capitals, digits, underscores
FLEET_ID_STYLES = [("fa", "fb", "fc"), ("fa", "fb", "fc"), ("f1", "f10", "f100"), ("taxi_xl", "taxi", "xl")]
VEHICLE_IDS = ["v1", "v2", "v3", "v10", "v11", "v20", "va", "vb", "v02", "v100"]  # lexical != numeric order
ELECTRIC_PLUGS = ["DCFC", "LEVEL_2", "LEVEL_1"]
ALL_PLUGS = ["DCFC", "LEVEL_2", "LEVEL_1", "GAS_PUMP"]
STEP_CHOICES = [15, 30, 45, 60, 60, 60, 90, 120, 300, 600]  # history profiles; component checks go down to 1 s

# mechatronics written into every generated scenario: the two shipped definitions plus
# two small ones so that batteries fill and tanks empty within a short history
MECHATRONICS_YAML = {
    "leaf_50": {
        "mechatronics_type": "bev",
        "powercurve_file": "normalized.yaml",
        "powertrain_file": "normalized-electric.yaml",
        "battery_capacity_kwh": 50,
        "nominal_max_charge_kw": 50,
        "charge_taper_cutoff_kw": 10,
        "nominal_watt_hour_per_mile": 225,
        "idle_kwh_per_hour": 0.8,
    },
    "toyota_corolla": {
        "mechatronics_type": "ice",
        "tank_capacity_gallons": 10,
        "idle_gallons_per_hour": 0.2,
        "powertrain_file": "normalized-gasoline.yaml",
        "nominal_miles_per_gallon": 30,
    },
    "tiny_bev": {
        "mechatronics_type": "bev",
        "powercurve_file": "normalized.yaml",
        "powertrain_file": "normalized-electric.yaml",
        "battery_capacity_kwh": 4,
        "nominal_max_charge_kw": 50,
        "charge_taper_cutoff_kw": 10,
        "nominal_watt_hour_per_mile": 300,
        "idle_kwh_per_hour": 2.0,
    },
    "tiny_ice": {
        "mechatronics_type": "ice",
        "tank_capacity_gallons": 0.5,
        "idle_gallons_per_hour": 0.5,
        "powertrain_file": "normalized-gasoline.yaml",
        "nominal_miles_per_gallon": 20,
    },
}
ELECTRIC_MECHS = ("leaf_50", "tiny_bev")
GAS_MECHS = ("toyota_corolla", "tiny_ice")

DEFAULT_PROFILE: Dict[str, Any] = {
    "nets": ["hav", "hav", "gen", "denver"],
    "nv": (2, 6),
    "socs": [0.0005, 0.003, 0.02, 0.08, 0.3, 0.8, 0.97, 0.995, 1.0],
    "mechs": ["leaf_50", "leaf_50", "tiny_bev", "toyota_corolla", "tiny_ice"],
    "fleets": [0, 0, 1, 2, 3],
    "humans": True,
    "builtin": [False, True],
    "n_scripted": [1, 1, 2, 3],
    "n_requests": (0, 30),
    "steps": STEP_CHOICES,
    "timeouts": [60, 120, 300, 600],
    "max_plugs": 2,
    "max_stalls": 2,
    "stations": (1, 3),
    "bases": (1, 3),
    # a third of the worlds write the optional allows_pooling column into the request file (any non-empty text counts as true)
    "pooling_col": True,
}


def profile(**over) -> Dict[str, Any]:
    p = dict(DEFAULT_PROFILE)
    p.update(over)
    return p


# tariffs per kWh: free, cheap ... expensive, and a negative one (surplus-power windows exist in time-of-use tables; the
# loader takes any float): the station then pays the vehicle
PRICES = st.sampled_from([0.0, 0.05, 0.3, 0.6, 2.5, -0.1])


@st.composite
def st_world(draw, prof: Optional[Dict[str, Any]] = None) -> Dict[str, Any]:
    p = prof or DEFAULT_PROFILE
    net = draw(st.sampled_from(p["nets"]))
    block = net == "gen" and draw(st.sampled_from(p.get("block_graphs", [False, False, True])))
    graph = draw(graphs.st_graph(4, 10, block_times=block)) if net == "gen" else None
    nsites = draw(st.integers(3, 7))
    sites = draw(st.lists(st.integers(0, len(SITE_POOL) - 1), min_size=nsites, max_size=nsites))
    # sites at junctions of the generated street graph (always on block graphs) instead of the fixed pool
    coords = None
    if net == "gen" and (block or draw(st.booleans())):
        coords = [graph["nodes"][s_ % len(graph["nodes"])][1:] for s_ in sites]
    site = st.integers(0, nsites - 1)
    # next-door sites: one site becomes the near twin (2-9 m away: another location cell, less than a second of driving) of another one
    if draw(st.sampled_from(p.get("near_twins", [False, False, False, True]))):
        k, j = draw(st.integers(0, nsites - 1)), draw(st.integers(0, nsites - 1))
        dlat, dlon = draw(st.sampled_from([(0.00002, 0.0), (0.00004, 0.00003), (0.0, 0.00006), (0.00007, 0.00002)]))
        if j != k:
            base = coords or [SITE_POOL[s_] for s_ in sites]
            coords = [list(c) for c in base]
            coords[k] = [round(base[j][0] + dlat, 6), round(base[j][1] + dlon, 6)]
    dt = draw(st.sampled_from(p["steps"]))
    timeout = draw(st.sampled_from(p["timeouts"]))
    start = draw(st.sampled_from([0, 0, 0, 3600 * 5 + 7, 86400 - 900]))
    nf = draw(st.sampled_from(p["fleets"]))
    # fleet ids are free text (keys of the fleets file): plain ones, or ids that contain one another ("f1" / "f10" / "f100")
    fleet_ids = list(draw(st.sampled_from(FLEET_ID_STYLES))[:nf]) if nf else []
    subset = st.lists(st.sampled_from(fleet_ids), unique=True, max_size=nf) if nf else st.just([])

    pool_world = bool(p.get("pooling_col")) and draw(st.sampled_from([False, False, True]))

    # stations
    stations = []
    for i in range(draw(st.integers(*p["stations"]))):
        ptypes = draw(st.lists(st.sampled_from(p.get("plug_types", ALL_PLUGS)), unique=True, min_size=1, max_size=p.get("max_ptypes", 3)))
        stations.append(
            {
                "id": f"s{i + 1}",
                "site": draw(site),
                "plugs": [[c, draw(st.integers(1, p["max_plugs"])), draw(st.sampled_from([True, True, False]))] for c in ptypes],
                "fleets": sorted(draw(subset)),
            }
        )
    # bases, some with a co-located station of their own
    bases = []
    for i in range(draw(st.integers(*p["bases"]))):
        b = {"id": f"b{i + 1}", "site": draw(site), "stalls": draw(st.integers(1, p["max_stalls"])), "station": None, "fleets": sorted(draw(subset))}
        if draw(st.booleans()):
            sid = f"bs{i + 1}"
            ptypes = draw(st.lists(st.sampled_from(["LEVEL_2", "LEVEL_2", "LEVEL_1", "DCFC", "GAS_PUMP"]), unique=True, min_size=1, max_size=2))
            stations.append(
                {
                    "id": sid,
                    "site": b["site"],
                    "plugs": [[c, draw(st.integers(1, p["max_plugs"])), draw(st.booleans())] for c in ptypes],
                    "fleets": sorted(draw(subset)),
                }
            )
            b["station"] = sid
        bases.append(b)
    # schedules: a few windows around the start time, some wrapping midnight
    schedules = []
    if p["humans"]:
        for i in range(2):
            a = (start + draw(st.sampled_from([-600, 0, dt, 5 * dt, 20 * dt]))) % 86400
            b_ = (a + draw(st.sampled_from([dt, 10 * dt, 40 * dt, 3600 * 6]))) % 86400
            schedules.append([SCHEDULE_IDS[i], _hms(a), _hms(b_)])
    # vehicles
    nv = draw(st.integers(*p["nv"]))
    ids = draw(st.permutations(VEHICLE_IDS))[:nv]
    vehicles = []
    for vid in ids:
        human = p["humans"] and draw(st.sampled_from(p.get("human_share", [False, False, False, True])))
        vehicles.append(
            {
                "id": vid,
                "site": draw(site),
                "mech": draw(st.sampled_from(p["mechs"])),
                "soc": draw(st.sampled_from(p["socs"])),
                "schedule": draw(st.sampled_from([s[0] for s in schedules])) if human else None,
                "home_base": draw(st.sampled_from([b["id"] for b in bases])) if human else None,
                "fleets": sorted(draw(subset)),
            }
        )
    # requests: sorted by departure time, bursts and identical stamps, co-located, o == d
    nreq = draw(st.integers(*p["n_requests"]))
    t = max(0, start - draw(st.sampled_from([0, 0, timeout // 2, 2 * timeout])))
    requests = []
    for j in range(nreq):
        t += draw(st.sampled_from([0, 0, 1, dt // 2, dt, dt + 1, 3 * dt]))
        requests.append(
            {
                "id": f"r{j}",
                "o": draw(site),
                "d": draw(site),
                "t": t,
                "pax": draw(st.sampled_from([1, 1, 2, 4])),
                "fleet": draw(st.sampled_from(fleet_ids)) if nf else None,
            }
        )
        # the optional allows_pooling column (profile flag): any non-empty text counts as true for the loader
        if pool_world:
            requests[-1]["pool"] = draw(st.sampled_from(["", "", "true", "false"]))
        # a few rows with the *wrong* fleet status (a fleet id in a scenario without fleets file, none in one with fleets): the loader is documented to drop them, so they must never be admitted, let alone dispatched
        if draw(st.integers(0, 11)) == 0:
            requests[-1]["fleet"] = None if nf else draw(st.sampled_from(["fa", "fz"]))
            requests[-1]["id"] = "m" + requests[-1]["id"]
    # complete, time-varying tariff table by station id (C11 generates the partial ones)
    prices = None
    price_key = "station_id"
    search_res = draw(st.sampled_from([7, 7, 7, 8]))
    if p.get("prices_always") or draw(st.booleans()):
        prices = []
        by_region = draw(st.sampled_from([False, False, False, True]))
        whens = [0] + sorted(draw(st.lists(st.integers(0, 40), max_size=2, unique=True)))
        if not by_region:
            for when in whens:
                for s in stations:
                    for c, _, _ in s["plugs"]:
                        prices.append([start + when * dt if when else 0, s["id"], c, draw(PRICES)])
        else:
            # the same complete tariff, keyed by region: one row per (enclosing cell at the search resolution or one coarser, plug type)
            import h3

            price_key = "geoid"
            kres = search_res - draw(st.sampled_from([0, 0, 1]))
            cells = {}
            for s in stations:
                cell = h3.h3_to_parent(h3.geo_to_h3(*(coords[s["site"]] if coords else SITE_POOL[sites[s["site"]]]), 15), kres)
                cells.setdefault(cell, set()).update(c for c, _, _ in s["plugs"])
            for when in whens:
                for cell in sorted(cells):
                    for c in sorted(cells[cell]):
                        prices.append([start + when * dt if when else 0, cell, c, draw(PRICES)])
    rate = draw(st.sampled_from([None, [2.2, 1.6, 5.0], [0.0, 3.0, 0.0], [1.0, 0.0, 7.5]]))
    disp = {
        "matching_range_km_threshold": draw(st.sampled_from([20, 1, 5])),
        "charging_range_km_threshold": draw(st.sampled_from([20, 5])),
        "charging_range_km_soft_threshold": draw(st.sampled_from([50, 50, 400])),
        # shortest_time_to_charge simulates whole charge sessions step by step for every candidate: only
        # affordable with steps >= 60 s
        "charging_search_type": draw(st.sampled_from(["nearest_shortest_queue"] * 3 + (["shortest_time_to_charge"] if dt >= 60 and p.get("shortest_time", True) else []))),
        "idle_time_out_seconds": draw(st.sampled_from([1800, 120, 600])),
        # 0.8 (default): drivers end fast charging by an Idle instruction; 1.0: sessions run until the battery is full and end by
        # the default transition *during* the vehicle-update pass (a different code path for freed plugs)
        "ideal_fastcharge_soc_limit": draw(st.sampled_from(p.get("soc_limits", [0.8, 1.0]))),
        # ring search cost grows with (radius / search-cell size)^3 when nothing is found: keep it small
        "max_search_radius_km": draw(st.sampled_from([5.0, 10.0])),
        "valid_dispatch_states": draw(st.sampled_from([["idle", "repositioning"], ["idle", "repositioning", "dispatchbase", "reservebase"], ["idle"]])),
    }
    return {
        "net": net,
        "graph": graph,
        "sites": sites,
        **({"site_coords": coords} if coords else {}),
        "sim": {"start_time": start, "timestep_duration_seconds": dt, "request_cancel_time_seconds": timeout,
                "sim_h3_search_resolution": search_res,
                # the location grid is configuration (default 15, ~1 m cells): profiles that ask for it also draw coarser grids, where a
                # vehicle can be inside its destination's cell with road still ahead
                **({"sim_h3_resolution": draw(st.sampled_from(p["h3_res"]))} if p.get("h3_res") else {})},
        "dispatcher": disp,
        "fleet_ids": fleet_ids,
        "vehicles": vehicles,
        "stations": stations,
        "bases": bases,
        "requests": requests,
        "schedules": schedules,
        "prices": prices,
        "price_key": price_key,
        "rate": rate,
        "builtin": draw(st.sampled_from(p["builtin"])),
        "n_scripted": draw(st.sampled_from(p["n_scripted"])),
        "lazy": draw(st.booleans()),
        "split_rows": draw(st.booleans()),
    }


def _hms(s: int) -> str:
    s %= 86400
    return "%02d:%02d:%02d" % (s // 3600, s % 3600 // 60, s % 60)


# --------------------------------------------------------------------------- writer / loader


def new_scratch(prefix: str = "hv-") -> Path:
    return Path(tempfile.mkdtemp(prefix=prefix, dir=str(SCRATCH_ROOT)))


def _site(w: Dict[str, Any], idx: int) -> Tuple[float, float]:
    if "site_coords" in w:  # explicit coordinates (used by some component checks)
        return tuple(w["site_coords"][idx])
    return SITE_POOL[w["sites"][idx]]


def write_world(w: Dict[str, Any], d: Path, end_steps: int = 2000) -> Path:
    """Write the scenario directory for world spec `w`; returns the scenario YAML path."""
    d = Path(d)
    rows = ["vehicle_id,lat,lon,mechatronics_id,initial_soc,schedule_id,home_base_id"]
    for v in w["vehicles"]:
        la, lo = _site(w, v["site"])
        rows.append(f"{v['id']},{la},{lo},{v['mech']},{v['soc']},{v['schedule'] or ''},{v['home_base'] or ''}")
    (d / "vehicles.csv").write_text("\n".join(rows) + "\n")
    rows = ["station_id,lat,lon,charger_count,charger_id,on_shift_access"]
    for s in w["stations"]:
        la, lo = _site(w, s["site"])
        for c, n, on in s["plugs"]:
            if w.get("split_rows") and n >= 2:
                # documented append semantics: a plug type repeated on a later row of the same station adds to the count
                rows.append(f"{s['id']},{la},{lo},1,{c},{'true' if on else 'false'}")
                rows.append(f"{s['id']},{la},{lo},{n - 1},{c},{'true' if on else 'false'}")
            else:
                rows.append(f"{s['id']},{la},{lo},{n},{c},{'true' if on else 'false'}")
    (d / "stations.csv").write_text("\n".join(rows) + "\n")
    rows = ["base_id,lat,lon,station_id,stall_count"]
    for b in w["bases"]:
        la, lo = _site(w, b["site"])
        rows.append(f"{b['id']},{la},{lo},{b['station'] or ''},{b['stalls']}")
    (d / "bases.csv").write_text("\n".join(rows) + "\n")
    has_fleets = bool(w.get("fleet_ids"))
    fleet_col = has_fleets or any(r.get("fleet") for r in w["requests"])
    pool_col = any("pool" in r for r in w["requests"])
    rows = ["request_id,o_lat,o_lon,d_lat,d_lon,departure_time,passengers" + (",fleet_id" if fleet_col else "") + (",allows_pooling" if pool_col else "")]
    for r in w["requests"]:
        o, dd = _site(w, r["o"]), _site(w, r["d"])
        tm = r.get("t_text", r["t"])
        rows.append(f"{r['id']},{o[0]},{o[1]},{dd[0]},{dd[1]},{tm},{r['pax']}" + (f",{r['fleet'] or ''}" if fleet_col else "") + (f",{r.get('pool', '')}" if pool_col else ""))
    (d / "requests.csv").write_text("\n".join(rows) + "\n")
    (d / "mechatronics.yaml").write_text(yaml.safe_dump(w.get("mechatronics") or MECHATRONICS_YAML))
    sim = {"sim_name": "w", "start_time": 0, "timestep_duration_seconds": 60}
    sim.update(w.get("sim") or {})
    sim.setdefault("end_time", int(sim["start_time"]) + end_steps * int(sim["timestep_duration_seconds"]))
    inp = {
        "vehicles_file": "vehicles.csv",
        "requests_file": "requests.csv",
        "bases_file": "bases.csv",
        "stations_file": "stations.csv",
        "mechatronics_file": "mechatronics.yaml",
    }
    net = {"network_type": "euclidean"}
    if w.get("net") in ("gen", "denver"):
        net = {"network_type": "osm_network"}
        if w["net"] == "gen":
            (d / "graph.json").write_text(json.dumps(graphs.graph_to_node_link(w["graph"])))
            inp["road_network_file"] = "graph.json"
        else:
            inp["road_network_file"] = str(graphs.DENVER_JSON)
    if w.get("chargers_csv"):
        (d / "chargers.csv").write_text(w["chargers_csv"])
        inp["chargers_file"] = "chargers.csv"
    if w.get("schedules"):
        (d / "schedules.csv").write_text("schedule_id,start_time,end_time\n" + "".join(f'{a},"{b}","{c}"\n' for a, b, c in w["schedules"]))
        inp["schedules_file"] = "schedules.csv"
    if w.get("prices") is not None:
        key = w.get("price_key", "station_id")
        (d / "prices.csv").write_text(f"time,{key},charger_id,price_kwh\n" + "".join(f"{(w.get('price_time_text') or {}).get(str(i), t)},{k},{c},{p}\n" for i, (t, k, c, p) in enumerate(w["prices"])))
        inp["charging_price_file"] = "prices.csv"
    if w.get("rate"):
        (d / "rate.csv").write_text("base_price,price_per_mile,minimum_price\n%s,%s,%s\n" % tuple(w["rate"]))
        inp["rate_structure_file"] = "rate.csv"
    if has_fleets:
        fl = {f: {"vehicles": [], "stations": [], "bases": []} for f in w["fleet_ids"]}
        for kind in ("vehicles", "stations", "bases"):
            for e in w[kind]:
                for f in e.get("fleets") or []:
                    fl[f][kind].append(e["id"])
        (d / "fleets.yaml").write_text(yaml.safe_dump(fl))
        inp["fleets_file"] = "fleets.yaml"
    sc = {"sim": sim, "network": net, "input": inp, "dispatcher": dict(w.get("dispatcher") or {})}
    (d / "scenario.yaml").write_text(yaml.safe_dump(sc))
    return d / "scenario.yaml"


def osm_init(config, sim, env):
    """Custom init function (HIVE's documented extension point) that loads the street graph.

    `OSMRoadNetwork.from_file` cannot read the shipped node-link JSON under the installed
    networkx (its `node_link_graph` default key changed from "links" to "edges"); this does
    what `osm_init_function` does with the key spelled out.
    """
    path = Path(config.input_config.road_network_file)
    if path == graphs.DENVER_JSON:
        rn = graphs.denver_network(config.network.default_speed_kmph, config.sim.sim_h3_resolution)
    else:
        from nrel.hive.model.roadnetwork.osm.osm_roadnetwork import OSMRoadNetwork

        g = graphs.build_nx(json.loads(path.read_text()))
        rn = OSMRoadNetwork(g, config.sim.sim_h3_resolution, config.network.default_speed_kmph)
    return sim._replace(road_network=rn), env


def load_scenario(scenario: Path, gens: Optional[Sequence[Any]] = None, real_handlers: bool = False,
                  out_dir: Optional[Path] = None, lazy: Optional[bool] = None, builtin_first: bool = False,
                  log_types: Optional[Sequence[str]] = None):
    """Load a scenario file through HIVE's public loader -> RunnerPayload."""
    from nrel.hive.initialization.initialize_simulation import default_init_functions
    from nrel.hive.initialization.load import load_config, load_simulation

    with quiet():
        cfg = load_config(scenario, output_suffix="o").suppress_logging()
        g = cfg.global_config
        if real_handlers:
            g = g._replace(log_events=True, log_stats=True)
            if log_types is not None:  # the user's choice of logged report types (log_sim_config of .hive.yaml)
                from nrel.hive.reporting.reporter import ReportType

                g = g._replace(log_sim_config={ReportType.from_string(t) for t in log_types})
        if lazy is not None:
            g = g._replace(lazy_file_reading=bool(lazy))
        out = Path(out_dir) if out_dir else Path(scenario).parent / "out"
        cfg = cfg._replace(global_config=g, scenario_output_directory=out)
        if builtin_first:  # built-in generators run first, the scripted ones after them (later wins)
            from nrel.hive.dispatcher.instruction_generator.charging_fleet_manager import ChargingFleetManager
            from nrel.hive.dispatcher.instruction_generator.dispatcher import Dispatcher

            gens = (recording(Dispatcher(cfg.dispatcher)), recording(ChargingFleetManager(cfg.dispatcher))) + tuple(gens or ())
        inits = None
        if cfg.network.network_type == "osm_network":
            inits = [osm_init] + list(default_init_functions())
        rp = load_simulation(cfg, custom_instruction_generators=tuple(gens) if gens is not None else None,
                             custom_init_functions=inits)
    return rp


def recording(inner):
    """Wrap a built-in InstructionGenerator in a pass-through proxy (same name, same output) that remembers
    what it emitted in the last step and the state it was handed."""
    from nrel.hive.dispatcher.instruction_generator.instruction_generator import InstructionGenerator

    class Recording(InstructionGenerator):
        def __init__(self, gen):
            self.inner = gen
            self.emitted = ()
            self.seen = None
            self.builtin = True

        @property
        def name(self):
            return self.inner.name

        def generate_instructions(self, simulation_state, environment):
            self.seen = simulation_state
            updated, instructions = self.inner.generate_instructions(simulation_state, environment)
            self.inner = updated
            self.emitted = tuple(instructions)
            return self, instructions

    # HIVE's update_instruction_generator looks a generator up by its *class* name: give the proxy the inner class' name
    return type(type(inner).__name__, (Recording,), {})(inner)


def load_via_cosim(scenario: Path, spec: Dict[str, Any], gens: Optional[Sequence[Any]] = None):
    """Load through the co-simulation entry point itself (hive_cosim.load_scenario, which also seeds the global RNGs). It
    takes no configuration object, so logging is switched off the way a user would: a .hive.yaml next to the scenario, found
    from the working directory (changed for the duration of the load only)."""
    import os

    from nrel.hive.app import hive_cosim
    from nrel.hive.initialization.initialize_simulation import default_init_functions

    d = Path(scenario).parent
    (d / ".hive.yaml").write_text(yaml.safe_dump({
        "output_base_directory": str(d / "out"), "log_run": False, "log_states": False, "log_events": False, "log_kepler": False,
        "log_stats": False, "log_instructions": False, "log_time_step_stats": False, "log_fleet_time_step_stats": False,
        "log_station_capacities": False, "lazy_file_reading": bool(spec.get("lazy")), "verbose": False}))
    inits = [osm_init] + list(default_init_functions()) if spec.get("net") in ("gen", "denver") else None
    cwd = os.getcwd()
    os.chdir(d)
    try:
        with quiet():
            return hive_cosim.load_scenario(Path(scenario), custom_instruction_generators=tuple(gens) if gens is not None else None,
                                            custom_init_functions=inits)
    finally:
        os.chdir(cwd)


class World:
    """A loaded world: scratch dir + RunnerPayload; `close()` removes every trace."""

    def __init__(self, spec: Dict[str, Any], gens=None, real_handlers: bool = False, end_steps: int = 2000,
                 builtin_first: bool = False, via_cosim: bool = False, fixed_dir: bool = False):
        self.spec = spec
        if fixed_dir:
            # the same scenario path as the previous fixed_dir world of this process: a user who edits the input files and loads again
            import os

            from hv.base import SCRATCH_ROOT

            self.dir = Path(SCRATCH_ROOT) / f"hv-reload-{os.getpid()}"
            shutil.rmtree(self.dir, ignore_errors=True)
            self.dir.mkdir(parents=True)
        else:
            self.dir = new_scratch()
        try:
            self.scenario = write_world(spec, self.dir, end_steps=end_steps)
            if via_cosim:
                self.rp = load_via_cosim(self.scenario, spec, gens)
                return
            self.rp = load_scenario(self.scenario, gens=gens, real_handlers=real_handlers, lazy=spec.get("lazy"),
                                    builtin_first=builtin_first, log_types=spec.get("log_types"))
        except BaseException:
            shutil.rmtree(self.dir, ignore_errors=True)
            raise

    def close(self) -> None:
        try:
            for h in getattr(self.rp.e.reporter, "handlers", []):
                try:
                    h.close(self.rp)
                except Exception:
                    pass
        finally:
            shutil.rmtree(self.dir, ignore_errors=True)


def world_summary(w: Dict[str, Any]) -> Dict[str, Any]:
    return {
        "net": w.get("net"),
        "dt": (w.get("sim") or {}).get("timestep_duration_seconds"),
        "vehicles": [(v["id"], v["mech"], v["soc"], v["site"], v["schedule"], v.get("fleets")) for v in w["vehicles"]],
        "stations": [(s["id"], s["site"], s["plugs"], s.get("fleets")) for s in w["stations"]],
        "bases": [(b["id"], b["site"], b["stalls"], b["station"], b.get("fleets")) for b in w["bases"]],
        "n_requests": len(w["requests"]),
        "fleets": w.get("fleet_ids"),
        "builtin": w.get("builtin"),
        "n_scripted": w.get("n_scripted"),
    }
