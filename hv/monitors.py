"""Oracles over step histories. Each monitor recomputes its property from scratch out of
(state before, state after, events of the step) plus a reference model it advances itself.
Violation keys name the clause and circumstance; they are what known-finding signatures match.
"""
from __future__ import annotations

import collections
from typing import Any, Dict, Iterable, List, Optional, Tuple

from hv.base import TOL, Violation
from hv.history import MOVING, History, Monitor, grants, sname


def _energy_type(v):
    return next(iter(v.energy.keys()))


def _level(v) -> float:
    return float(next(iter(v.energy.values())))


def _capacity(mech) -> float:
    for a in ("battery_capacity_kwh", "tank_capacity_gallons"):
        if hasattr(mech, a):
            return float(getattr(mech, a))
    raise AttributeError("unknown mechatronics capacity")


def _events(events, kind: str) -> List[Dict[str, Any]]:
    return [e for t, e in events if t == kind]


def can_use(vehicle, charger) -> bool:
    """can this vehicle's powertrain take energy from this plug at all? Decided from the data (the plug's energy type is one the
    vehicle stores), not by asking HIVE's valid_charger - whose answer is part of what the checks judge"""
    return any(et == charger.energy_type for et in vehicle.energy.keys())


def _route_time_s(route) -> float:
    return sum(3600.0 * l.distance_km / l.speed_kmph for l in route)


# ============================================================================ C02


class C02Counts(Monitor):
    prop = "C02"

    def check_state(self, sim, where: str) -> Iterable[Violation]:
        using = collections.Counter()
        queued = collections.Counter()
        stalls = collections.Counter()
        for v in sim.vehicles.values():
            n, vs = sname(v), v.vehicle_state
            if n == "ChargingStation":
                using[(vs.station_id, vs.charger_id)] += 1
            elif n == "ChargingBase":
                b = sim.bases.get(vs.base_id)
                using[(b.station_id if b is not None else None, vs.charger_id)] += 1
                stalls[vs.base_id] += 1
            elif n == "ChargeQueueing":
                queued[(vs.station_id, vs.charger_id)] += 1
            elif n == "ReserveBase":
                stalls[vs.base_id] += 1
        for s in sim.stations.values():
            for cid, cs in s.state.items():
                k = (s.id, cid)
                if not (0 <= cs.available_chargers <= cs.total_chargers):
                    yield Violation("C02", f"plugs out of range {where}", {"station": s.id, "plug": cid, "available": cs.available_chargers, "total": cs.total_chargers})
                elif cs.total_chargers - cs.available_chargers != using[k]:
                    yield Violation("C02", f"plugs in use != vehicles charging {where}", {"station": s.id, "plug": cid, "total": cs.total_chargers, "available": cs.available_chargers, "vehicles_charging": using[k]})
                if cs.enqueued_vehicles != queued[k]:
                    yield Violation("C02", f"queue counter != vehicles queueing {where}", {"station": s.id, "plug": cid, "counter": cs.enqueued_vehicles, "vehicles_queueing": queued[k]})
        # the statement quantifies over the plug types a station has. A controller may send a vehicle to
        # queue for a type the station lacks (it then waits for ever; no counter exists to compare with):
        # that is outside the statement and not judged. *Charging* on a plug that is not installed is.
        known = {(s.id, cid) for s in sim.stations.values() for cid in s.state.keys()}
        for k, n in using.items():
            if k not in known and n:
                yield Violation("C02", f"vehicle charges on a plug that is not installed {where}", {"station_plug": k, "vehicles": n})
        for b in sim.bases.values():
            if not (0 <= b.available_stalls <= b.total_stalls):
                yield Violation("C02", f"stalls out of range {where}", {"base": b.id, "available": b.available_stalls, "total": b.total_stalls})
            elif b.total_stalls - b.available_stalls != stalls[b.id]:
                yield Violation("C02", f"stalls in use != vehicles at base {where}", {"base": b.id, "total": b.total_stalls, "available": b.available_stalls, "vehicles": stalls[b.id]})

    def after_step(self, h: History, before, after, events):
        # non-triviality flags
        for v in after.vehicles.values():
            b = before.vehicles[v.id]
            if sname(v) == "ChargeQueueing" and sname(b) != "ChargeQueueing":
                h.flag("arrival_at_full_station")
            if sname(b) in ("ChargingStation", "ChargingBase", "ChargeQueueing", "ReserveBase") and b.vehicle_state.instance_id != v.vehicle_state.instance_id:
                if any(e["vehicle_id"] == v.id for e in _events(events, "INSTRUCTION")):
                    h.flag("exit_resource_by_instruction")
        for e in _events(events, "INSTRUCTION"):
            b = before.vehicles.get(e["vehicle_id"])
            a = after.vehicles.get(e["vehicle_id"])
            if b is not None and a is not None and sname(b) in ("ChargingStation", "ChargingBase", "ChargeQueueing", "ReserveBase") and b.vehicle_state.instance_id == a.vehicle_state.instance_id:
                h.flag("rejected_from_resource_holder")
        return self.check_state(after, "after step")

    def after_probe(self, h, before, after, instruction, vid):
        return self.check_state(after, "after single instruction")


# ============================================================================ C03


class C03Requests(Monitor):
    prop = "C03"

    def start(self, h):
        self.state: Dict[str, str] = {}
        self.req: Dict[str, Any] = {}

    def after_step(self, h: History, before, after, events):
        mid = h.mid(before)
        paid = collections.Counter()
        fares = collections.Counter()
        for t, e in events:
            rid = e.get("request_id")
            if t == "ADD_REQUEST_EVENT":
                if rid in self.state:
                    yield Violation("C03", "request admitted twice", {"request": rid, "was": self.state[rid]})
                self.state[rid] = "waiting"
            elif t == "PICKUP_REQUEST_EVENT":
                h.flag("pickup")
                if self.state.get(rid) != "waiting":
                    yield Violation("C03", f"pickup of a request that is {self._cls(rid)}", {"request": rid, "vehicle": e["vehicle_id"]})
                self.state[rid] = "onboard:" + e["vehicle_id"]
                ro = mid.requests.get(rid) or before.requests.get(rid)
                self.req[rid] = ro
                fares[e["vehicle_id"]] += float(e["price"])
                if ro is not None and abs(float(e["price"]) - float(ro.value)) > TOL:
                    yield Violation("C03", "fare credited differs from the request's value", {"request": rid, "price": e["price"], "value": ro.value})
            elif t == "DROPOFF_REQUEST_EVENT":
                h.flag("dropoff")
                if self.state.get(rid) != "onboard:" + e["vehicle_id"]:
                    yield Violation("C03", f"drop-off of a request that is {self._cls(rid)}", {"request": rid, "vehicle": e["vehicle_id"], "state": self.state.get(rid)})
                self.state[rid] = "done"
                ro = self.req.get(rid)
                if ro is not None and e["geoid"] != ro.destination:
                    yield Violation("C03", "drop-off away from the destination", {"request": rid, "at": e["geoid"], "destination": ro.destination})
            elif t == "CANCEL_REQUEST_EVENT":
                h.flag("cancel")
                if self.state.get(rid) != "waiting":
                    yield Violation("C03", f"cancellation of a request that is {self._cls(rid)}", {"request": rid})
                b = before.requests.get(rid)
                if b is not None and b.dispatched_vehicle is not None:
                    h.flag("expired_while_vehicle_en_route")
                self.state[rid] = "cancelled"
            elif t == "VEHICLE_CHARGE_EVENT":
                paid[e["vehicle_id"]] += float(e["price"])
        waiting = {r for r, x in self.state.items() if x == "waiting"}
        present = set(after.requests.keys())
        if waiting != present:
            gone = sorted(waiting - present)
            extra = sorted(present - waiting)
            if gone:
                yield Violation("C03", "request vanished without pickup or cancel event", {"requests": gone})
            if extra:
                yield Violation("C03", "request present without admission event or after resolution", {"requests": extra, "states": {r: self.state.get(r) for r in extra}})
        # fare credited exactly once, to the vehicle that picked it up
        for vid, fare in fares.items():
            d = after.vehicles[vid].balance - before.vehicles[vid].balance
            if abs(d - (fare - paid[vid])) > TOL:
                yield Violation("C03", "vehicle balance change != fares of its pickups", {"vehicle": vid, "delta": d, "fares": fare, "charging_paid": paid[vid]})
        for v in after.vehicles.values():
            if v.id not in fares:
                d = after.vehicles[v.id].balance - before.vehicles[v.id].balance
                if d + paid[v.id] > TOL:
                    yield Violation("C03", "vehicle credited without a pickup", {"vehicle": v.id, "delta": d})
        # passengers on board stay on board until dropped off (or the vehicle dies)
        for rid, x in list(self.state.items()):
            if x.startswith("onboard:"):
                v = after.vehicles.get(x.split(":", 1)[1])
                n = sname(v) if v is not None else "missing"
                if n == "OutOfService":
                    # excused only when the vehicle ran out of energy; an instruction that takes a carrying vehicle out of
                    # service is a diversion like any other
                    told = [e["instruction_type"] for e in _events(events, "INSTRUCTION") if e["vehicle_id"] == v.id]
                    bv = before.vehicles.get(v.id)
                    was_carrying = bv is not None and sname(bv) == "ServicingTrip" and len(bv.vehicle_state.route) > 0
                    if told and was_carrying and "OutOfServiceInstruction" in told and h.oos_instruction_accepted(mid, v.id):
                        yield Violation("C03", "an instruction took a vehicle that is carrying passengers out of service", {"request": rid, "vehicle": v.id, "instruction": told})
                    self.state[rid] = "stranded:" + v.id
                    h.flag("stranded")
                elif not (n == "ServicingTrip" and v.vehicle_state.request.id == rid):
                    yield Violation("C03", f"vehicle carrying passengers became {n} without drop-off", {"request": rid, "vehicle": x})
        # flags: competition and interruption attempts
        disp = collections.Counter(v.vehicle_state.request_id for v in after.vehicles.values() if sname(v) == "DispatchTrip")
        if any(c > 1 for c in disp.values()):
            h.flag("two_vehicles_to_one_request")
        for e in _events(events, "INSTRUCTION"):
            b = mid.vehicles.get(e["vehicle_id"])
            if b is not None and sname(b) == "ServicingTrip" and len(b.vehicle_state.route) > 0:
                h.flag("instruction_on_carrying_vehicle")

    def _cls(self, rid) -> str:
        x = self.state.get(rid)
        return "unknown" if x is None else x.split(":")[0]

    def finish(self, h):
        for rid, x in self.state.items():
            if x.split(":")[0] not in ("waiting", "onboard", "stranded", "done", "cancelled"):
                yield Violation("C03", "request in no class at end", {"request": rid, "state": x})


# ============================================================================ C04 (history part)


class C04Energy(Monitor):
    prop = "C04"

    def start(self, h):
        self.initial = {v.id: _level(v) for v in h.sim.vehicles.values()}

    def after_step(self, h: History, before, after, events):
        dt = float(after.sim_timestep_duration_seconds)
        moves = {e["vehicle_id"] for e in _events(events, "VEHICLE_MOVE_EVENT")}
        for v in after.vehicles.values():
            b = before.vehicles[v.id]
            mech = h.env.mechatronics[v.mechatronics_id]
            kind = type(mech).__name__
            et = _energy_type(v)
            cap = _capacity(mech)
            lvl, lvl0 = float(v.energy[et]), float(b.energy[et])
            dg = float(v.energy_gained[et] - b.energy_gained[et])
            de = float(v.energy_expended[et] - b.energy_expended[et])
            if lvl < -1e-12 or lvl > cap + 1e-9:
                yield Violation("C04", f"level outside [0, capacity] ({kind})", {"vehicle": v.id, "level": lvl, "capacity": cap})
            if abs((lvl - lvl0) - (dg - de)) > 1e-9:
                yield Violation("C04", f"level change != gained - expended ({kind})", {"vehicle": v.id, "from": sname(b), "to": sname(v), "dlevel": lvl - lvl0, "dgained": dg, "dexpended": de})
            elif abs(lvl - (self.initial[v.id] + float(v.energy_gained[et]) - float(v.energy_expended[et]))) > TOL:
                yield Violation("C04", f"level != initial + gained - expended ({kind})", {"vehicle": v.id, "level": lvl, "initial": self.initial[v.id]})
            if dg < -1e-12 or de < -1e-12:
                yield Violation("C04", f"negative gain or expenditure booked ({kind})", {"vehicle": v.id, "dgained": dg, "dexpended": de})
            moved = v.distance_traveled_km > b.distance_traveled_km
            # "expends a strictly positive amount" is judged on the level itself (the booked counter is a running
            # sum in which a 1e-18 expenditure is absorbed by rounding; its consistency is the identity above)
            if moved and lvl0 > 0 and not lvl < lvl0:
                yield Violation("C04", f"drove a positive distance without expending energy ({kind})", {"vehicle": v.id, "km": v.distance_traveled_km - b.distance_traveled_km, "level_before": lvl0, "level_after": lvl})
            a_idle = sname(v) == "Idle" and v.vehicle_state.idle_duration > (b.vehicle_state.idle_duration if sname(b) == "Idle" and b.vehicle_state.instance_id == v.vehicle_state.instance_id else 0)
            a_queue = sname(v) == "ChargeQueueing" and sname(b) == "ChargeQueueing" and b.vehicle_state.instance_id == v.vehicle_state.instance_id
            if a_queue:
                # a vehicle a controller sent to queue for a plug it can never use (wrong energy type / not installed) does not
                # idle in the queue: once that plug is free its update tries to start charging, is refused, and nothing else
                # happens in the step. That is the controller's error (same exclusion as C06 (iii)), not an energy defect.
                st_ = after.stations.get(v.vehicle_state.station_id)
                cs = st_.state.get(v.vehicle_state.charger_id) if st_ is not None else None
                if cs is None or not can_use(v, cs.charger):
                    a_queue = False
                    h.stats["c04_queue_excluded_unusable_plug"] += 1
            if (a_idle or a_queue) and lvl0 > 0 and dt > 0 and not lvl < lvl0:
                yield Violation("C04", f"idled for a positive time without expending energy ({kind})", {"vehicle": v.id, "activity": sname(v), "level_before": lvl0, "level_after": lvl})
            if v.geoid != b.geoid and not lvl > 0:
                yield Violation("C04", f"moved on with no energy left ({kind})", {"vehicle": v.id, "level": lvl})
            if sname(v) == "OutOfService" and sname(b) != "OutOfService":
                h.flag("went_out_of_service")
                if v.geoid != b.geoid:
                    yield Violation("C04", "vehicle that ran empty did not stop where it was", {"vehicle": v.id})
            if sname(b) == "Idle" and lvl0 <= 0 and sname(v) == "Idle" and v.vehicle_state.instance_id == b.vehicle_state.instance_id:
                yield Violation("C04", "empty idle vehicle not taken out of service", {"vehicle": v.id})
        for e in _events(events, "VEHICLE_CHARGE_EVENT"):
            h.flag("charged")
            s = after.stations[e["station_id"]]
            ch = s.state[e["charger_id"]].charger
            en = float(e["energy"])
            deliverable = ch.rate * dt / 3600.0 if ch.energy_type.name == "ELECTRIC" else ch.rate * dt
            if en < -1e-12:
                yield Violation("C04", "charging lowered the level", {"event": {k: str(x) for k, x in e.items()}})
            if en > deliverable * (1 + 1e-9) + 1e-12:
                sub = getattr(getattr(h.env.mechatronics[after.vehicles[e["vehicle_id"]].mechatronics_id], "powercurve", None), "step_size_seconds", None)
                tag = "step not a multiple of the charge curve's sub-step" if sub and dt % sub else "aligned step"
                yield Violation("C04", f"charge adds more than the plug can deliver ({tag})", {"vehicle": e["vehicle_id"], "energy": en, "deliverable": deliverable, "dt": dt, "rate": ch.rate})


# ============================================================================ C05


class C05Ledger(Monitor):
    prop = "C05"

    def start(self, h):
        self.fares = collections.Counter()
        self.paid = collections.Counter()
        self.recv = collections.Counter()
        self.tariffs = set()
        # the run's summary statistics (what summary_stats.json is written from), asked for as a co-simulation client may: mid-run, repeatedly
        from nrel.hive.reporting.handler.stats_handler import StatsHandler

        self.stats_h = StatsHandler()
        h.env.reporter.add_handler(self.stats_h)

    def summary(self, h: History, when: str) -> Iterable[Violation]:
        try:
            with quiet():
                out = h.env.reporter.get_summary_stats(h.rp)
        except Exception as exc:
            h._crashed(exc)
            return
        if not out:
            return
        h.stats["summaries_compiled"] += 1
        sim = h.sim
        want = {
            "total_kwh_dispensed": sum(x for s_ in sim.stations.values() for et, x in s_.energy_dispensed.items() if et.name == "ELECTRIC"),
            "total_gge_dispensed": sum(x for s_ in sim.stations.values() for et, x in s_.energy_dispensed.items() if et.name == "GASOLINE"),
            "station_revenue_dollars": sum(s_.balance for s_ in sim.stations.values()),
            "fleet_revenue_dollars": sum(v.balance for v in sim.vehicles.values()),
        }
        for k, w in want.items():
            if k in out and abs(float(out[k]) - w) > TOL:
                yield Violation("C05", f"summary {k} != total over the stations / vehicles", {"summary": float(out[k]), "state": w, "when": when, "compiled_so_far": h.stats["summaries_compiled"]})

    def finish(self, h):
        yield from self.summary(h, "at the end")
        yield from self.summary(h, "at the end, asked again")
        try:  # StatsHandler.close() prints a table on the console when the world is closed
            h.env.reporter.handlers.remove(self.stats_h)
        except (ValueError, AttributeError):
            pass

    def after_step(self, h: History, before, after, events):
        step_paid = collections.Counter()
        step_recv = collections.Counter()
        step_fare = collections.Counter()
        for t, e in events:
            if t == "PICKUP_REQUEST_EVENT":
                step_fare[e["vehicle_id"]] += float(e["price"])
            elif t == "VEHICLE_CHARGE_EVENT":
                price, en = float(e["price"]), float(e["energy"])
                s = after.stations[e["station_id"]]
                tariff = float(s.state[e["charger_id"]].price_per_kwh)
                if abs(price - en * tariff) > 1e-9:
                    yield Violation("C05", "charge price != energy x station tariff for that plug", {"price": price, "energy": en, "tariff": tariff, "station": s.id, "plug": e["charger_id"]})
                step_paid[e["vehicle_id"]] += price
                step_recv[e["station_id"]] += price
                if tariff > 0 and en > 0:
                    self.tariffs.add((s.id, e["charger_id"], tariff))
                    if len(self.tariffs) >= 2:
                        h.flag("two_nonzero_tariffs")
                    if e["vehicle_state"] == "ChargingBase":
                        h.flag("paid_base_charge")
                v0, v1 = before.vehicles[e["vehicle_id"]], after.vehicles[e["vehicle_id"]]
                et = _energy_type(v1)
                # the event must name the station and plug the vehicle is really on (its activity after the step, or - if the
                # session ended in this step - before it), so that a consistently mis-attributed payment cannot hide
                on = None
                for vv in (v1, v0):
                    n_ = sname(vv)
                    if n_ == "ChargingStation":
                        on = (vv.vehicle_state.station_id, vv.vehicle_state.charger_id)
                    elif n_ == "ChargingBase":
                        b_ = after.bases.get(vv.vehicle_state.base_id)
                        on = (b_.station_id if b_ is not None else None, vv.vehicle_state.charger_id)
                    if on is not None:
                        break
                if on is not None and on != (e["station_id"], e["charger_id"]):
                    yield Violation("C05", "charge event names another station or plug than the one the vehicle charges on", {"vehicle": v1.id, "event": [e["station_id"], e["charger_id"]], "activity": list(on)})
                if abs((v1.energy_gained[et] - v0.energy_gained[et]) - en) > 1e-9:
                    yield Violation("C05", "charge event energy != energy the vehicle gained", {"vehicle": v1.id, "event": en, "gained": v1.energy_gained[et] - v0.energy_gained[et]})
        for v in after.vehicles.values():
            d = v.balance - before.vehicles[v.id].balance
            if abs(d - (step_fare[v.id] - step_paid[v.id])) > TOL:
                yield Violation("C05", "vehicle balance change != fares - charging payments", {"vehicle": v.id, "delta": d, "fares": step_fare[v.id], "paid": step_paid[v.id]})
        for s in after.stations.values():
            d = s.balance - before.stations[s.id].balance
            if abs(d - step_recv[s.id]) > TOL:
                yield Violation("C05", "station balance change != payments received", {"station": s.id, "delta": d, "received": step_recv[s.id]})
        self.fares.update(step_fare)
        self.paid.update(step_paid)
        self.recv.update(step_recv)
        for v in after.vehicles.values():
            if abs(v.balance - (self.fares[v.id] - self.paid[v.id])) > TOL:
                yield Violation("C05", "vehicle balance != fares - payments (cumulative)", {"vehicle": v.id, "balance": v.balance, "fares": self.fares[v.id], "paid": self.paid[v.id]})
        for s in after.stations.values():
            if abs(s.balance - self.recv[s.id]) > TOL:
                yield Violation("C05", "station balance != payments received (cumulative)", {"station": s.id, "balance": s.balance, "received": self.recv[s.id]})
        gained = collections.Counter()
        disp = collections.Counter()
        dg = collections.Counter()
        dd = collections.Counter()
        for v in after.vehicles.values():
            for et, x in v.energy_gained.items():
                gained[et.name] += x
                dg[et.name] += x - before.vehicles[v.id].energy_gained[et]
        for s in after.stations.values():
            for et, x in s.energy_dispensed.items():
                disp[et.name] += x
                dd[et.name] += x - before.stations[s.id].energy_dispensed.get(et, 0.0)
        for et in set(gained) | set(disp):
            if abs(dg[et] - dd[et]) > 1e-9:
                yield Violation("C05", "energy gained by vehicles != energy dispensed by stations (step)", {"type": et, "gained": dg[et], "dispensed": dd[et]})
            elif abs(gained[et] - disp[et]) > TOL:
                yield Violation("C05", "energy gained by vehicles != energy dispensed by stations (cumulative)", {"type": et, "gained": gained[et], "dispensed": disp[et]})
        # what the stations *report* as dispensed: the per-step station load records HIVE derives from the step's reports (the
        # event log's station_load_event rows; the history worlds write no log, so the same function is applied to the
        # captured reports). Per station they must add up to what the station's state says it dispensed in the step.
        charge = [(t, e) for t, e in events if t == "VEHICLE_CHARGE_EVENT"]
        if charge:
            from nrel.hive.reporting import vehicle_event_ops
            from nrel.hive.reporting.report_type import ReportType
            from nrel.hive.reporting.reporter import Report

            loads = vehicle_event_ops.construct_station_load_events(tuple(Report(ReportType[t], dict(e)) for t, e in events if t in ReportType.__members__), after)
            rep = collections.Counter()
            for r in loads:
                rep[r.report["station_id"]] += float(r.report["energy"])
            if len({e["station_id"] for _, e in charge}) >= 2:
                h.flag("two_stations_dispensing_in_one_step")
            for sid in sorted({e["station_id"] for _, e in charge} | set(rep)):
                s0, s1 = before.stations.get(sid), after.stations.get(sid)
                state_d = sum(x - (s0.energy_dispensed.get(et, 0.0) if s0 is not None else 0.0) for et, x in s1.energy_dispensed.items()) if s1 is not None else 0.0
                if abs(rep[sid] - state_d) > 1e-9:
                    yield Violation("C05", "station load report != energy the station dispensed in the step", {"station": sid, "reported": rep[sid], "dispensed": state_d, "charge_events": [[e["vehicle_id"], e["station_id"], float(e["energy"])] for _, e in charge]})
        if h.step_no % 6 == 3:
            yield from self.summary(h, "mid-run")
        # flag: session cut short by an instruction
        for e in _events(events, "INSTRUCTION"):
            b = before.vehicles.get(e["vehicle_id"])
            a = after.vehicles.get(e["vehicle_id"])
            if b is not None and sname(b) in ("ChargingStation", "ChargingBase") and a.vehicle_state.instance_id != b.vehicle_state.instance_id:
                h.flag("session_cut_by_instruction")


# ============================================================================ C06 (history part)


class C06Movement(Monitor):
    prop = "C06"

    def after_step(self, h: History, before, after, events):
        dt = float(after.sim_timestep_duration_seconds)
        moves = collections.defaultdict(list)
        for e in _events(events, "VEHICLE_MOVE_EVENT"):
            moves[e["vehicle_id"]].append(e)
        for v in after.vehicles.values():
            b = before.vehicles[v.id]
            mv = moves.get(v.id, [])
            same = b.vehicle_state.instance_id == v.vehicle_state.instance_id
            if v.position != b.position:
                if len(mv) != 1:
                    yield Violation("C06", f"position changed with {len(mv)} move events", {"vehicle": v.id, "from": sname(b), "to": sname(v)})
                elif mv[0]["vehicle_state"] not in MOVING:
                    yield Violation("C06", "position changed while not travelling", {"vehicle": v.id, "activity": mv[0]["vehicle_state"]})
            dodo = v.distance_traveled_km - b.distance_traveled_km
            if mv:
                if abs(dodo - sum(float(e["distance_km"]) for e in mv)) > 1e-9:
                    yield Violation("C06", "odometer change != distance of the move event", {"vehicle": v.id, "odometer": dodo, "event": [e["distance_km"] for e in mv]})
            elif abs(dodo) > 1e-12:
                yield Violation("C06", "odometer changed without a move event", {"vehicle": v.id, "odometer": dodo})
            if sname(b) in MOVING and same:
                r0, r1 = b.vehicle_state.route, v.vehicle_state.route
                if mv:
                    h.flag("moved")
                    if r1:
                        if r1[0].start != v.geoid:
                            yield Violation("C06", "remaining route does not start at the vehicle's position", {"vehicle": v.id, "position": v.geoid, "route_start": r1[0].start})
                        if r1[-1].end != r0[-1].end:
                            yield Violation("C06", "destination of the route changed while driving", {"vehicle": v.id})
                        ids0 = [l.link_id for l in r0]
                        ids1 = [l.link_id for l in r1]
                        if ids0[len(ids0) - len(ids1):] != ids1:
                            yield Violation("C06", "remaining links are not the tail of the original route", {"vehicle": v.id, "before": ids0, "after": ids1})
                        if v.position.link_id != r1[0].link_id and v.position.link_id not in ids0:
                            yield Violation("C06", "vehicle is on a link that is not part of its route", {"vehicle": v.id, "link": v.position.link_id})
                    elif r0 and v.geoid != r0[-1].end:
                        yield Violation("C06", "route exhausted but vehicle is not at its end", {"vehicle": v.id})
                    # speed bound, history form (the exact per-link form is the component check): the distance of the
                    # step is at most the fastest touched link's speed x (step + one second of rounding per link),
                    # plus one cell of snapping. (Remaining-time differences cannot be used: route() gives a first
                    # link its full length even when the vehicle starts mid-link, and a split re-measures it.)
                    touched = r0[: len(r0) - len(r1) + 1]
                    vmax = max(l.speed_kmph for l in touched)
                    if dodo > vmax * (dt + len(touched)) / 3600.0 + 0.002 + 1e-9:
                        yield Violation("C06", "covered more road than the link speeds allow in one step", {"vehicle": v.id, "km": dodo, "dt": dt, "fastest_link_kmph": vmax, "links": len(touched)})
                if r0 and _level(b) > 0 and sname(v) in MOVING:
                    vmax = max(l.speed_kmph for l in r0)
                    open_route = r0[0].start != r0[-1].end
                    if open_route and vmax * dt / 3.6 >= 5.0 and not _route_time_s(r1) < _route_time_s(r0):
                        yield Violation("C06", "travelling vehicle with energy made no progress", {"vehicle": v.id, "activity": sname(v), "remaining_before": _route_time_s(r0), "remaining_after": _route_time_s(r1)})
                if not r0 and not r1:
                    why = self._arrival_excluded(h, after, v)
                    if why:
                        h.stats["c06g_excluded_" + why] += 1
                    else:
                        yield Violation("C06", f"still {sname(v)} one step after arriving", {"vehicle": v.id})

    @staticmethod
    def _arrival_excluded(h, sim, v) -> str:
        """(g) is asserted only when the target activity is enterable for this vehicle"""
        if sname(v) == "DispatchStation":
            s = sim.stations.get(v.vehicle_state.station_id)
            cs = s.state.get(v.vehicle_state.charger_id) if s is not None else None
            mech = h.env.mechatronics[v.mechatronics_id]
            if cs is None:
                return "plug_not_installed"
            if not can_use(v, cs.charger):
                return "plug_wrong_energy_type"
        return ""


# ============================================================================ C07


class C07Location(Monitor):
    prop = "C07"

    def check_state(self, sim, where: str) -> Iterable[Violation]:
        for v in sim.vehicles.values():
            n, vs = sname(v), v.vehicle_state
            if n in ("ChargingStation", "ChargeQueueing"):
                x = sim.stations.get(vs.station_id)
                if x is None or v.geoid != x.geoid:
                    yield Violation("C07", f"{n} away from the station {where}", {"vehicle": v.id, "station": vs.station_id})
            elif n in ("ReserveBase", "ChargingBase"):
                x = sim.bases.get(vs.base_id)
                if x is None or v.geoid != x.geoid:
                    yield Violation("C07", f"{n} away from the base {where}", {"vehicle": v.id, "base": vs.base_id})
            elif n in MOVING:
                tgt = None
                if n == "DispatchStation":
                    x = sim.stations.get(vs.station_id)
                    tgt = x.geoid if x is not None else None
                elif n == "DispatchBase":
                    x = sim.bases.get(vs.base_id)
                    tgt = x.geoid if x is not None else None
                elif n == "DispatchTrip":
                    x = sim.requests.get(vs.request_id)
                    tgt = x.origin if x is not None else None  # request may have been cancelled meanwhile
                elif n == "ServicingTrip":
                    tgt = vs.request.destination
                r = vs.route
                if r:
                    if r[0].start != v.geoid:
                        yield Violation("C07", f"{n} route does not start at the vehicle {where}", {"vehicle": v.id, "position": v.geoid, "route_start": r[0].start})
                    if tgt is not None and r[-1].end != tgt:
                        yield Violation("C07", f"{n} route does not end at its target {where}", {"vehicle": v.id, "route_end": r[-1].end, "target": tgt})
                    for a, b in zip(r, r[1:]):
                        if a.end != b.start:
                            yield Violation("C07", f"{n} route is not connected {where}", {"vehicle": v.id})
                            break
                elif tgt is not None and v.geoid != tgt:
                    yield Violation("C07", f"{n} route exhausted away from its target {where}", {"vehicle": v.id, "position": v.geoid, "target": tgt})

    def after_step(self, h: History, before, after, events):
        mid = h.mid(before)
        for e in _events(events, "PICKUP_REQUEST_EVENT"):
            ro = mid.requests.get(e["request_id"]) or before.requests.get(e["request_id"])
            if ro is not None and e["geoid"] != ro.origin:
                yield Violation("C07", "pickup away from the request's origin", {"request": ro.id, "at": e["geoid"], "origin": ro.origin})
            if ro is not None:
                self._req = getattr(self, "_req", {})
                self._req[ro.id] = ro
        for e in _events(events, "DROPOFF_REQUEST_EVENT"):
            ro = getattr(self, "_req", {}).get(e["request_id"])
            if ro is not None and e["geoid"] != ro.destination:
                yield Violation("C07", "drop-off away from the request's destination", {"request": ro.id, "at": e["geoid"], "destination": ro.destination})
        for v in after.vehicles.values():
            b = before.vehicles[v.id]
            n = sname(v)
            if b.vehicle_state.instance_id != v.vehicle_state.instance_id:
                instructed = any(e["vehicle_id"] == v.id for e in _events(events, "INSTRUCTION"))
                if n in ("ChargingStation", "ChargeQueueing", "ReserveBase", "ChargingBase"):
                    h.flag("stationary_entered")
                if sname(b) in MOVING and not instructed and n != "OutOfService":
                    h.flag("arrival_by_default_transition")
        for e in _events(events, "INSTRUCTION"):
            v = mid.vehicles.get(e["vehicle_id"])
            tgt = None
            if "station_id" in e:
                tgt = mid.stations.get(e["station_id"])
            elif "base_id" in e:
                tgt = mid.bases.get(e["base_id"])
            if v is not None and tgt is not None and tgt.geoid != v.geoid and e["instruction_type"] in ("ChargeStationInstruction", "ChargeBaseInstruction", "ReserveBaseInstruction"):
                h.flag("stationary_instruction_remote_target")
        yield from self.check_state(after, "after step")
        # (INSTRUCTION reports list selected instructions, accepted or not: a refused one does not make the stranding the controller's doing)
        told_oos = {e["vehicle_id"] for e in _events(events, "INSTRUCTION") if e["instruction_type"] == "OutOfServiceInstruction" and h.oos_instruction_accepted(mid, e["vehicle_id"])}
        yield from self.trip_ends(h, before, after, "in a step", told_oos)
        # interruption sweep: in every reached state every vehicle with passengers is told to stop (on the side)
        from nrel.hive.dispatcher.instruction.instructions import IdleInstruction

        for v in sorted(after.vehicles.values(), key=lambda x: x.id):
            if sname(v) == "ServicingTrip" and not h.dead:
                s2 = h.try_apply(after, IdleInstruction(v.id))
                if s2 is not None:
                    h.stats["interruption_sweeps"] += 1
                    if v.vehicle_state.route:
                        h.flag("interruption_tried_mid_trip")
                    yield from self.trip_ends(h, after, s2, "by an Idle instruction")

    def trip_ends(self, h, before, after, where: str, told_oos=()) -> Iterable[Violation]:
        """a trip is ended only at its destination (a vehicle that cannot afford its next move is stranded by the
        simulator itself, OutOfService without having been told so: that is not an ended trip)"""
        for b in before.vehicles.values():
            if sname(b) != "ServicingTrip":
                continue
            if not b.vehicle_state.route and b.geoid == b.vehicle_state.request.destination:
                continue  # arrived (and dropped off) in an earlier step: the trip has already ended, at its destination
            v = after.vehicles.get(b.id)
            if v is None or (sname(v) == "ServicingTrip" and v.vehicle_state.request.id == b.vehicle_state.request.id):
                continue
            if sname(v) == "OutOfService" and v.id not in told_oos:
                continue
            if v.geoid != b.vehicle_state.request.destination:
                yield Violation("C07", f"trip ended away from its destination {where}",
                                {"vehicle": v.id, "request": b.vehicle_state.request.id, "position": v.geoid,
                                 "destination": b.vehicle_state.request.destination, "now": sname(v)})

    def after_probe(self, h, before, after, instruction, vid):
        yield from self.check_state(after, "after single instruction")
        # a trip is started only at the request's origin (no time passes in a probe: the vehicle is where it was)
        va, vb = after.vehicles.get(vid), before.vehicles.get(vid)
        if va is not None and vb is not None and sname(va) == "ServicingTrip" and sname(vb) != "ServicingTrip":
            h.flag("trip_started_by_single_instruction")
            if vb.geoid != va.vehicle_state.request.origin:
                yield Violation("C07", "trip started away from the request's origin by a single " + type(instruction).__name__,
                                {"vehicle": vid, "position": vb.geoid, "origin": va.vehicle_state.request.origin, "request": va.vehicle_state.request.id})
        yield from self.trip_ends(h, before, after, "by a single " + type(instruction).__name__,
                                  {vid} if type(instruction).__name__ == "OutOfServiceInstruction" else ())


# ============================================================================ C08 (history part)


def index_recount(sim, where: str, prop: str = "C08") -> Iterable[Violation]:
    import h3

    res = sim.sim_h3_search_resolution
    for kind, ents, loc, srch in (
        ("vehicle", sim.vehicles, sim.v_locations, sim.v_search),
        ("request", sim.requests, sim.r_locations, sim.r_search),
        ("station", sim.stations, sim.s_locations, sim.s_search),
        ("base", sim.bases, sim.b_locations, sim.b_search),
    ):
        el: Dict[str, set] = {}
        es: Dict[str, set] = {}
        for i, e in ents.items():
            if i != e.id:
                yield Violation(prop, f"{kind} stored under a different id {where}", {"key": i, "id": e.id})
            el.setdefault(e.geoid, set()).add(i)
            es.setdefault(h3.h3_to_parent(e.geoid, res), set()).add(i)
        got_l = {k: set(v) for k, v in loc.items()}
        got_s = {k: set(v) for k, v in srch.items()}
        if got_l != el:
            yield Violation(prop, f"{kind} location index disagrees with entities {where}", _index_diff(got_l, el))
        if got_s != es:
            yield Violation(prop, f"{kind} search index disagrees with entities {where}", _index_diff(got_s, es))


def _index_diff(got, want):
    return {
        "stale_or_extra": {k: sorted(v - want.get(k, set())) for k, v in got.items() if v - want.get(k, set()) or not v},
        "missing": {k: sorted(v - got.get(k, set())) for k, v in want.items() if v - got.get(k, set())},
    }


class C08Index(Monitor):
    prop = "C08"

    def start(self, h):
        self.fixed = {("s", s.id): s.geoid for s in h.sim.stations.values()}
        self.fixed.update({("b", b.id): b.geoid for b in h.sim.bases.values()})
        self.cells = collections.defaultdict(set)

    def after_step(self, h: History, before, after, events):
        import h3

        yield from index_recount(after, "after step")
        for s in after.stations.values():
            if self.fixed.get(("s", s.id)) != s.geoid:
                yield Violation("C08", "station changed location", {"station": s.id})
        for b in after.bases.values():
            if self.fixed.get(("b", b.id)) != b.geoid:
                yield Violation("C08", "base changed location", {"base": b.id})
        if set(after.stations.keys()) != {k[1] for k in self.fixed if k[0] == "s"} or set(after.bases.keys()) != {k[1] for k in self.fixed if k[0] == "b"}:
            yield Violation("C08", "station or base appeared or disappeared", {})
        res = after.sim_h3_search_resolution
        for v in after.vehicles.values():
            b = before.vehicles[v.id]
            if v.geoid != b.geoid:
                if h3.h3_to_parent(v.geoid, res) != h3.h3_to_parent(b.geoid, res):
                    h.flag("cross_search_cell_move")
                if v.geoid in self.cells[v.id]:
                    h.flag("return_to_previous_cell")
                self.cells[v.id].add(b.geoid)
        if len(after.requests) < len(before.requests) or _events(events, "PICKUP_REQUEST_EVENT") or _events(events, "CANCEL_REQUEST_EVENT"):
            h.flag("request_removed")

    def after_probe(self, h, before, after, instruction, vid):
        return index_recount(after, "after single instruction")


# ============================================================================ C10 (state part)


class C10Membership(Monitor):
    prop = "C10"

    def check_state(self, sim, where: str, h: Optional[History] = None) -> Iterable[Violation]:
        for v in sim.vehicles.values():
            n, vs = sname(v), v.vehicle_state
            if n in ("DispatchStation", "ChargingStation", "ChargeQueueing"):
                x = sim.stations.get(vs.station_id)
                if x is not None and not grants(x, v):
                    yield Violation("C10", f"{n} at a station that denies the vehicle {where}", {"vehicle": v.id, "vehicle_fleets": sorted(v.membership.memberships), "station": x.id, "station_fleets": sorted(x.membership.memberships)})
            elif n in ("DispatchBase", "ReserveBase", "ChargingBase"):
                x = sim.bases.get(vs.base_id)
                if x is not None and not grants(x, v):
                    yield Violation("C10", f"{n} at a base that denies the vehicle {where}", {"vehicle": v.id, "vehicle_fleets": sorted(v.membership.memberships), "base": x.id, "base_fleets": sorted(x.membership.memberships)})
                if n == "ChargingBase" and x is not None and x.station_id is not None:
                    s = sim.stations.get(x.station_id)
                    if s is not None and not grants(s, v):
                        yield Violation("C10", f"ChargingBase on a plug of a station that denies the vehicle {where}", {"vehicle": v.id, "vehicle_fleets": sorted(v.membership.memberships), "base": x.id, "station": s.id, "station_fleets": sorted(s.membership.memberships)})
            elif n == "DispatchTrip":
                x = sim.requests.get(vs.request_id)
                if x is not None and h is not None and vs.instance_id in h.reoffered.get(x.id, ()):
                    continue  # started travelling while it had access; the request was re-offered to another fleet since
                if x is not None and not grants(x, v):
                    yield Violation("C10", f"DispatchTrip to a request of another fleet {where}", {"vehicle": v.id, "vehicle_fleets": sorted(v.membership.memberships), "request": x.id, "request_fleets": sorted(x.membership.memberships)})
            elif n == "ServicingTrip":
                if not grants(vs.request, v):
                    yield Violation("C10", f"ServicingTrip for a request of another fleet {where}", {"vehicle": v.id, "request": vs.request.id})

    def after_step(self, h: History, before, after, events):
        mid = h.mid(before)
        for e in _events(events, "INSTRUCTION"):
            v = mid.vehicles.get(e["vehicle_id"])
            tgt = None
            if "station_id" in e:
                tgt = mid.stations.get(e["station_id"])
            elif "base_id" in e:
                tgt = mid.bases.get(e["base_id"])
            elif "request_id" in e:
                tgt = mid.requests.get(e["request_id"])
            if v is not None and tgt is not None and not grants(tgt, v):
                h.flag("cross_fleet_instruction")
                a = after.vehicles[v.id]
                if a.vehicle_state.instance_id == before.vehicles[v.id].vehicle_state.instance_id:
                    h.flag("cross_fleet_instruction_rejected")
        # (requests whose fleet status does not fit the scenario - a fleet id without fleets file, none with one - are part of
        # the generated input; the loader is documented to drop them. Their admission alone is not judged here: the statement
        # is about what vehicles and dispatchers then do, which clauses (a) and (b) decide.)
        known_fleets = set(h.spec.get("fleet_ids") or [])
        if any((known_fleets and not r.membership.memberships) or (r.membership.memberships and not known_fleets) for r in after.requests.values()):
            h.flag("misfit_request_admitted")
        yield from self.check_state(after, "after step", h)
        # (b) pairings produced by the built-in generators (every instruction they emitted, whether or not a
        # later generator overrode it) and by the vehicles' own drivers (winning instructions nobody scripted)
        scripted = {(type(i).__name__, i.vehicle_id) for g in h.scripted for i in g.emitted}
        produced = [(g.name, i) for g in h.builtin_gens for i in g.emitted]
        for e in _events(events, "INSTRUCTION"):
            if (e["instruction_type"], e["vehicle_id"]) not in scripted and not any(type(i).__name__ == e["instruction_type"] and i.vehicle_id == e["vehicle_id"] for _, i in produced):
                produced.append(("driver", _Rec(e)))
        for who, i in produced:
            v = mid.vehicles.get(i.vehicle_id)
            if v is None:
                continue
            # the statement's second sentence names requests and stations; bases are judged by clause (a) only
            for attr, pool, what in (("request_id", mid.requests, "request"), ("station_id", mid.stations, "station")):
                tid = getattr(i, attr, None)
                tgt = pool.get(tid) if tid is not None else None
                if tgt is not None:
                    h.flag("builtin_pairing")
                    h.stats["builtin_pairings"] += 1
                    if not grants(tgt, v):
                        nofleet = " (vehicle in no fleet)" if not v.membership.memberships else ""
                        yield Violation("C10", f"{who} paired a vehicle with a {what} of a fleet it does not belong to{nofleet}", {"instruction": type(i).__name__ if not isinstance(i, _Rec) else i.instruction_type, "vehicle": v.id, "vehicle_fleets": sorted(v.membership.memberships), what: tid, what + "_fleets": sorted(tgt.membership.memberships)})

    def after_probe(self, h, before, after, instruction, vid):
        return self.check_state(after, "after single instruction", h)


class _Rec:
    """attribute view of an INSTRUCTION report"""

    def __init__(self, e):
        self.__dict__.update(e)


# ============================================================================ C17


class C17Assignment(Monitor):
    prop = "C17"

    def start(self, h):
        self.offered_again = set()
        self.was_assigned = collections.defaultdict(set)

    def check_state(self, h, sim, where: str, before=None) -> Iterable[Violation]:
        for r in sim.requests.values():
            dv = r.dispatched_vehicle
            if dv is None:
                continue
            v = sim.vehicles.get(dv)
            if v is None or sname(v) != "DispatchTrip" or v.vehicle_state.request_id != r.id:
                how = sname(v) if v is not None else "missing"
                cause = ""
                if before is not None and v is not None:
                    pb = before.vehicles.get(dv)
                    if pb is not None and sname(pb) == "DispatchTrip" and pb.vehicle_state.request_id == r.id and how == "OutOfService":
                        cause = " after running out of energy en route"
                yield Violation("C17", f"request records a vehicle that is {how}{cause} {where}", {"request": r.id, "recorded": dv})

    def after_step(self, h: History, before, after, events):
        yield from self.check_state(h, after, "after step", before)
        # the built-in dispatcher must treat a recorded request as taken: whatever else controllers do, it never sends a
        # vehicle to a request that records a dispatched vehicle in the state it was handed
        for g in h.builtin_gens:
            if g.name != "Dispatcher" or g.seen is None:
                continue
            for i in g.emitted:
                r = g.seen.requests.get(getattr(i, "request_id", None))
                if r is not None:
                    h.stats["builtin_dispatches"] += 1
                    if r.dispatched_vehicle is not None:
                        yield Violation("C17", "built-in dispatcher sent a vehicle to a request that already records one", {"request": r.id, "recorded": r.dispatched_vehicle, "sent": i.vehicle_id, "recorded_at": int(r.dispatched_vehicle_time) if r.dispatched_vehicle_time is not None else None})
                    # "at most one vehicle is travelling to any given request", judged at the moment the dispatcher decides (a short trip
                    # may end in this very step and hide the pair from the state after the step): requests that no scripted controller
                    # ever named and no client re-offered
                    under_way = sorted(v.id for v in g.seen.vehicles.values() if sname(v) == "DispatchTrip" and v.vehicle_state.request_id == r.id and v.id != i.vehicle_id)
                    if under_way and r.id not in h.scripted_request_targets:
                        yield Violation("C17", "built-in dispatcher sent a second vehicle to a request another vehicle is travelling to", {"request": r.id, "travelling": under_way, "sent": i.vehicle_id, "recorded": r.dispatched_vehicle})
        pure_builtin = h.builtin and h.stats["instructions_queued"] == 0
        if pure_builtin and h.step_no >= 5:
            h.flag("five_steps_under_builtin_generators_alone")
            if len(h.spec.get("fleet_ids") or []) >= 2:
                h.flag("five_steps_under_builtin_generators_alone_with_fleets")
        disp = collections.defaultdict(list)
        for v in after.vehicles.values():
            if sname(v) == "DispatchTrip":
                disp[v.vehicle_state.request_id].append(v.id)
        for rid, vs in disp.items():
            # requests that only the built-in dispatcher ever dispatched vehicles to (no scripted DispatchTrip instruction named them,
            # no client re-offered them): whatever else the scripted controllers do to the vehicles - accepted instructions take them
            # off the trip and clear the record, refused ones change nothing - at most one vehicle is on its way
            if len(vs) > 1 and h.builtin and rid in after.requests and (pure_builtin or rid not in h.scripted_request_targets):
                yield Violation("C17", "built-in dispatcher has two vehicles travelling to one request", {"request": rid, "vehicles": sorted(vs), "scripted_instructions_queued": h.stats["instructions_queued"]})
            if h.builtin and not pure_builtin and rid not in h.scripted_request_targets:
                h.flag("builtin_dispatched_request_among_scripted_instructions")
        for v in after.vehicles.values():
            b = before.vehicles[v.id]
            if sname(b) == "DispatchTrip" and b.vehicle_state.instance_id != v.vehicle_state.instance_id:
                if sname(v) == "OutOfService":
                    h.flag("ran_empty_while_dispatched")
                elif sname(v) != "ServicingTrip":
                    h.flag("dispatched_vehicle_redirected")
                rid = b.vehicle_state.request_id
                if rid in after.requests and after.requests[rid].dispatched_vehicle is None:
                    self.offered_again.add(rid)
            if sname(v) == "DispatchTrip":
                rid = v.vehicle_state.request_id
                if rid in self.offered_again and b.vehicle_state.instance_id != v.vehicle_state.instance_id:
                    h.flag("request_redispatched")

    def after_probe(self, h, before, after, instruction, vid):
        return self.check_state(h, after, "after single instruction")


# ============================================================================ C18


class C18Queue(Monitor):
    prop = "C18"

    def start(self, h):
        # the harness' own arrival log: vehicle -> (station, plug, time it joined), kept for as long as the vehicle is seen
        # queueing for that plug at every step end. It does not trust the vehicles' own enqueue_time fields beyond the
        # moment of joining: a vehicle that is re-stamped while it never left the queue keeps its place in this log.
        self.joined: Dict[str, Tuple[str, str, int]] = {}

    def after_step(self, h: History, before, after, events):
        # vehicles a scripted controller of the harness addressed in this step: such a vehicle may be taken out of the queue and
        # plugged in by that controller's own choice. Instructions of the built-in generators and drivers are not an excuse:
        # whatever they do, the queue is served in order of arrival.
        instructed = {i.vehicle_id for g in h.scripted for i in getattr(g, "emitted", ())}
        if any(e["vehicle_id"] not in instructed for e in _events(events, "INSTRUCTION")):
            h.flag("built_in_instruction_in_a_step")
        # bring the log up to the state *before* this step (first step of a case, or vehicles that joined in the last step)
        for v in before.vehicles.values():
            if sname(v) == "ChargeQueueing":
                k = (v.vehicle_state.station_id, v.vehicle_state.charger_id)
                if self.joined.get(v.id, (None, None, None))[:2] != k:
                    self.joined[v.id] = k + (int(v.vehicle_state.enqueue_time),)
            else:
                self.joined.pop(v.id, None)
        queues = collections.Counter()
        for v in after.vehicles.values():
            if sname(v) == "ChargeQueueing":
                queues[(v.vehicle_state.station_id, v.vehicle_state.charger_id)] += 1
        if queues and max(queues.values()) >= 2:
            h.flag("queue_of_two")
        if queues and max(queues.values()) >= 3:
            h.flag("queue_of_three")
        for v in after.vehicles.values():
            b = before.vehicles[v.id]
            if not (sname(b) == "ChargeQueueing" and sname(v) == "ChargingStation"):
                continue
            bs, vs = b.vehicle_state, v.vehicle_state
            if (bs.station_id, bs.charger_id) != (vs.station_id, vs.charger_id) or v.id in instructed:
                continue  # the controller, not the queue, chose this vehicle
            h.flag("grant_from_queue")
            h.stats["queue_grants"] += 1
            kv = (self.joined[v.id][2], v.id)
            for w in after.vehicles.values():
                bw = before.vehicles[w.id]
                if w.id == v.id or sname(bw) != "ChargeQueueing" or sname(w) != "ChargeQueueing":
                    continue
                ws, ws1 = bw.vehicle_state, w.vehicle_state
                if (ws.station_id, ws.charger_id) != (bs.station_id, bs.charger_id) or (ws1.station_id, ws1.charger_id) != (bs.station_id, bs.charger_id):
                    continue
                st_ = after.stations.get(ws.station_id)
                cs = st_.state.get(ws.charger_id) if st_ is not None else None
                mech = h.env.mechatronics[w.mechatronics_id]
                if cs is None or not can_use(w, cs.charger):
                    continue  # can never be granted this plug; skipping it is not queue-jumping
                if mech.is_full(w):
                    # HIVE refuses to start a session for a vehicle it considers full (within 0.1 kWh of capacity for a
                    # BEV): such a queue member cannot be granted the plug either, whatever its place in the queue
                    h.flag("full_vehicle_waiting_in_queue")
                    continue
                kw = (self.joined[w.id][2], w.id)
                if kw[0] == kv[0]:
                    h.flag("equal_time_tie")
                if int(ws1.enqueue_time) != kw[0]:
                    h.flag("restamped_while_queueing")
                if kw < kv:
                    which = "earlier arrival" if kw[0] < kv[0] else "same arrival time, smaller id"
                    if int(ws1.enqueue_time) != kw[0]:
                        which += "; the waiting vehicle was re-stamped although it never left the queue"
                    yield Violation("C18", f"vehicle left waiting while a later one got the plug ({which})", {"granted": v.id, "granted_joined": kv[0], "waiting": w.id, "waiting_joined": kw[0], "waiting_current_stamp": int(ws1.enqueue_time), "station": bs.station_id, "plug": bs.charger_id})


# ============================================================================ C09


EXPECTED_CLASS = {
    "IdleInstruction": ("Idle",),
    "DispatchTripInstruction": ("DispatchTrip",),
    "DispatchStationInstruction": ("DispatchStation", "ChargingStation"),
    "ChargeStationInstruction": ("ChargingStation",),
    "ChargeBaseInstruction": ("ChargingBase",),
    "DispatchBaseInstruction": ("DispatchBase",),
    "ReserveBaseInstruction": ("ReserveBase",),
    "OutOfServiceInstruction": ("OutOfService",),
    "RepositionInstruction": ("Repositioning",),
}
RAW_EXPECTED = {"BoardNow": ("ServicingTrip",), "QueueNow": ("ChargeQueueing",), "TripRoute": ("DispatchTrip",), "StationRoute": ("DispatchStation", "ChargingStation"),
                "BaseRoute": ("DispatchBase",), "RepositionRoute": ("Repositioning",)}
STATE_FIELDS = ("vehicles", "stations", "bases", "requests", "v_locations", "r_locations", "s_locations", "b_locations",
                "v_search", "r_search", "s_search", "b_search")
HOLDERS = ("ChargingStation", "ChargingBase", "ChargeQueueing", "ReserveBase", "DispatchTrip", "ServicingTrip")


def _changed_fields(a, b) -> List[str]:
    return [f for f in STATE_FIELDS if getattr(a, f) != getattr(b, f)]


class C09Atomic(Monitor):
    prop = "C09"

    def start(self, h):
        self.sub = [C02Counts(), C07Location(), C17Assignment()]
        for m in self.sub:
            m.start(h)

    # ---- part 1: a single instruction is all-or-nothing
    def after_probe(self, h: History, before, after, instruction, vid):
        itype = type(instruction).__name__
        vb, va = before.vehicles.get(vid), after.vehicles.get(vid)
        prev = sname(vb)
        changed = vb.vehicle_state.instance_id != va.vehicle_state.instance_id
        h.labels[f"m:{prev}:{itype}:{'accepted' if changed else 'rejected'}"] += 1
        if not changed:
            if prev in HOLDERS:
                h.flag("rejected_from_holder")
            diff = _changed_fields(before, after)
            if diff:
                yield Violation("C09", f"rejected {itype} from {prev} changed the state", {"fields": diff, "instruction": repr(instruction)})
        else:
            h.flag("accepted_probe")
            got = sname(va)
            if got not in (EXPECTED_CLASS.get(itype) or RAW_EXPECTED[instruction.kind]):
                yield Violation("C09", f"accepted {itype} left the vehicle in {got}", {"instruction": repr(instruction), "previous": prev})
            if got == "DispatchTrip":
                # "with all of its side effects": the request now records this vehicle (whoever it recorded before)
                r = after.requests.get(va.vehicle_state.request_id)
                if r is not None:
                    h.flag("accepted_dispatch_to_request_that_recorded_another_vehicle" if (before.requests.get(r.id) is not None and before.requests[r.id].dispatched_vehicle not in (None, vid)) else "accepted_dispatch")
                    if r.dispatched_vehicle != vid:
                        yield Violation("C09", f"accepted {itype}: the request does not record the vehicle that was sent to it", {"instruction": repr(instruction), "request": r.id, "recorded": r.dispatched_vehicle})
            others = [x for x in after.vehicles.values() if x.id != vid and x != before.vehicles[x.id]]
            if others:
                yield Violation("C09", f"{itype} for one vehicle changed another vehicle", {"instruction": repr(instruction), "others": [x.id for x in others]})
            # "with all of its side effects": the resource, location and assignment recounts hold on the result
            for m in self.sub:
                for v in m.after_probe(h, before, after, instruction, vid):
                    yield Violation("C09", f"side effects of accepted {itype} incomplete: {v.key}", v.detail)

    # ---- part 1b: a rejected instruction does not disturb the others of a batch
    def batch(self, h: History, before, after, instructions, one_at_a_time_result) -> Iterable[Violation]:
        """`after` = apply_instructions(before, batch); `one_at_a_time_result` = the same instructions (distinct vehicles)
        applied one by one in the same order, each of which is all-or-nothing by part 1. They must agree modulo instance
        ids: acceptance of one instruction may depend on what earlier ones took (the last plug), never on a later or an
        earlier *rejection*."""
        from hv.canon import canon, first_diff

        rejected = [i for i in instructions if before.vehicles[i.vehicle_id].vehicle_state.instance_id == one_at_a_time_result.vehicles[i.vehicle_id].vehicle_state.instance_id]
        if rejected and len(rejected) < len(instructions):
            h.flag("batch_with_rejection")
        a = canon({f: getattr(after, f) for f in STATE_FIELDS})
        b = canon({f: getattr(one_at_a_time_result, f) for f in STATE_FIELDS})
        if a != b:
            yield Violation("C09", "a batch of instructions gives another result than the same instructions one at a time", {"first_difference": first_diff(a, b), "instructions": [repr(i) for i in instructions], "rejected_one_at_a_time": [repr(i) for i in rejected]})

    # ---- part 2: one instruction per vehicle per step, last generated wins, driver has the final word
    def after_step(self, h: History, before, after, events):
        from nrel.hive.reporting.reporter import Reporter
        import dataclasses

        gens = h.generators
        mid = next((g.seen for g in reversed(gens) if getattr(g, "seen", None) is not None), None)
        if mid is None:
            return
        env2 = h.env.set_reporter(Reporter())
        emitted: Dict[str, list] = collections.defaultdict(list)
        for g in gens:
            for i in getattr(g, "emitted", ()):
                emitted[i.vehicle_id].append(i)
        reports: Dict[str, list] = collections.defaultdict(list)
        for e in _events(events, "INSTRUCTION"):
            reports[e["vehicle_id"]].append(e)
        winners = []
        for vid in sorted(mid.vehicles.keys()):
            mine = emitted.get(vid, [])
            stack = tuple(reversed(mine)) or None
            di = mid.vehicles[vid].driver_state.generate_instruction(mid, env2, stack)
            want = di if di is not None else (mine[-1] if mine else None)
            got = reports.get(vid, [])
            h.stats["precedence_checks"] += 1
            if len(mine) > 1:
                h.flag("competing_instructions")
            if di is not None and mine:
                h.flag("driver_overrode_generator")
            if len(got) > 1:
                yield Violation("C09", "more than one instruction took effect for a vehicle in one step", {"vehicle": vid, "reports": [g_["instruction_type"] for g_ in got]})
                continue
            if want is None:
                if got:
                    yield Violation("C09", "an instruction took effect that nobody generated", {"vehicle": vid, "got": got[0]["instruction_type"]})
                continue
            if not got:
                yield Violation("C09", "no instruction took effect although one was generated", {"vehicle": vid, "wanted": repr(want)})
                continue
            wd = dict(dataclasses.asdict(want), instruction_type=type(want).__name__)
            gd = {k: got[0].get(k) for k in wd}
            if wd != gd:
                who = "the driver's" if di is not None else "the last generated"
                yield Violation("C09", f"the instruction that took effect is not {who}", {"vehicle": vid, "wanted": wd, "got": gd, "generated_in_order": [repr(i) for i in mine]})
            ai = after.applied_instructions.get(vid)
            if ai is not None and dict(dataclasses.asdict(ai), instruction_type=type(ai).__name__) != wd:
                yield Violation("C09", "applied_instructions records another instruction than the one selected", {"vehicle": vid})
            winners.append(want)
        # ---- the step's batch must behave like its instructions applied one at a time: recompute the step from the state the
        # generators saw with single-instruction applications (each all-or-nothing by part 1), then HIVE's own vehicle updates
        # and tick, and compare with what the step produced (modulo instance ids)
        if winners:
            from nrel.hive.state.simulation_state import simulation_state_ops
            from nrel.hive.state.simulation_state.update.step_simulation_ops import apply_instructions, perform_vehicle_state_updates
            from hv.canon import canon, first_diff

            s_ = mid
            for i in sorted(winners, key=lambda i: i.vehicle_id, reverse=True):  # StepSimulation applies in descending id order
                s_ = apply_instructions(s_, env2, (i,))
            with quiet():
                s_ = simulation_state_ops.tick(perform_vehicle_state_updates(s_, env2))
            a = canon({f: getattr(after, f) for f in STATE_FIELDS + ("sim_time",)})
            b = canon({f: getattr(s_, f) for f in STATE_FIELDS + ("sim_time",)})
            h.stats["step_differentials"] += 1
            if a != b:
                yield Violation("C09", "the step's result differs from applying its instructions one at a time", {"first_difference": first_diff(a, b), "instructions": [repr(i) for i in winners]})


# ============================================================================ C16


class C16Immutable(Monitor):
    prop = "C16"

    def _check_retained(self, h: History, when: str) -> Iterable[Violation]:
        from hv.canon import fingerprint

        for k, (s, fp) in enumerate(h.retained):
            if fingerprint(s, ids=True) != fp:
                yield Violation("C16", f"a retained state reads differently {when}", {"retained_index": k, "retained_at": int(s.sim_time)})
        h.stats["retained_state_checks"] += len(h.retained)

    def after_step(self, h: History, before, after, events):
        if h.retained:
            changed = sum(1 for f in ("vehicles", "stations", "requests") if getattr(before, f) != getattr(after, f))
            if changed == 3:
                h.labels["steps_changing_vehicles_station_request_after_retain"] += 1
                self._rich = getattr(self, "_rich", 0) + 1
                if self._rich >= 5:
                    h.flag("five_rich_steps_after_retain")
        return self._check_retained(h, "after a later step")

    def after_probe(self, h, before, after, instruction, vid):
        return self._check_retained(h, "after a later instruction application")

    def _step_saved(self, h: History, saved, queues, more_steps: int = 0):
        """StepSimulation.update on a saved state with the scripted controllers' queues set to `queues`; nothing of the
        monitored history is disturbed (throw-away reporter, generator state restored)"""
        from nrel.hive.reporting.reporter import Reporter
        from hv.canon import canon

        env2 = h.env.set_reporter(Reporter())
        snap = [(g, list(getattr(g, "queue", [])), getattr(g, "emitted", ()), getattr(g, "seen", None)) for g in h.generators]
        try:
            for g, q in zip(h.scripted, queues):
                g.queue = list(q)
            try:
                with quiet():
                    r, _ = h.rp.u.step_update.update(saved, env2)
                    for _k in range(more_steps):  # carry on from there (the scripted controllers have nothing more to say)
                        r, _ = h.rp.u.step_update.update(r, env2)
            except Exception as exc:  # HIVE raised while stepping the saved state: bucketed like any crash of a step
                h._crashed(exc)
                return None
            return canon(r, ids=False)
        finally:
            for g, q, em, seen in snap:
                if hasattr(g, "queue"):
                    g.queue = list(q)
                if hasattr(g, "emitted"):
                    g.emitted, g.seen = em, seen

    def _what_if_sweep(self, h: History, saved, budget: int = 120) -> None:
        """what-if exploration on the side, as a co-simulation client does between two uses of a saved state: from the
        current state and from every other retained state, every vehicle is sent (one instruction at a time, result thrown
        away) to stations, bases and waiting requests. None of it may influence what the saved state gives when stepped."""
        from nrel.hive.dispatcher.instruction import instructions as I

        n = 0
        sources = [h.sim] + [s for s, _ in h.retained if s is not saved]
        # first a burst of unrelated route planning (one vehicle repositioned to up to 48 different links of a street network) ...
        links = getattr(getattr(h.sim.road_network, "link_helper", None), "links", None)
        if links:
            v0 = sorted(h.sim.vehicles.keys())[0]
            for lid in sorted(links.keys())[:48]:
                if h.dead:
                    return
                h.try_apply(h.sim, I.RepositionInstruction(v0, lid))
                n += 1
            budget += n
        # ... then the targeted what-ifs
        for src in sources:
            targets = [("s", k) for k in sorted(src.stations.keys())] + [("b", k) for k in sorted(src.bases.keys())] + [("r", k) for k in sorted(src.requests.keys())[:6]]
            for v in sorted(src.vehicles.values(), key=lambda x: x.id):
                for kind, k in targets:
                    if n >= budget or h.dead:
                        h.stats["what_if_applications"] += n
                        return
                    if kind == "s":
                        plugs = sorted(src.stations[k].state.keys())
                        mech = h.env.mechatronics.get(v.mechatronics_id)
                        ok = [c for c in plugs if mech is not None and mech.valid_charger(src.stations[k].state[c].charger)]
                        if not ok:
                            continue
                        i = I.DispatchStationInstruction(v.id, k, ok[0])
                    elif kind == "b":
                        i = I.DispatchBaseInstruction(v.id, k)
                    else:
                        i = I.DispatchTripInstruction(v.id, k)
                    h.try_apply(src, i)
                    n += 1
        h.stats["what_if_applications"] += n

    def on_retain(self, h: History) -> None:
        """called when a state is retained: remember what stepping it gives *now* (with the controllers' current queues)"""
        queues = [list(g.queue) for g in h.scripted]
        self.first_result = getattr(self, "first_result", [])
        self.first_result.append((queues, self._step_saved(h, h.sim, queues)))

    def branch(self, h: History, k: int) -> Iterable[Violation]:
        from hv.canon import first_diff

        more = (0, 0, 0, 2, 5, 9)[(k // 8) % 6]  # most branches re-step once; some carry on for 3, 6 or 10 steps
        k = k % len(h.retained)
        saved, _ = h.retained[k]
        queues, first = self.first_result[k]
        if first is None:
            return
        if more:
            # the same saved state run forward several steps, twice: equal results (modulo instance ids) both times
            runs = [self._step_saved(h, saved, queues, more) for _ in range(2)]
            if runs[0] is not None and runs[1] is not None:
                h.flag("branched_several_steps")
                h.stats["multi_step_branches"] += 1
                if runs[0] != runs[1]:
                    yield Violation("C16", "running the same saved state forward twice gave different results", {"steps": more + 1, "first_difference": first_diff(runs[0], runs[1])})
            yield from self._check_retained(h, "after running a saved state forward")
            return
        again = [self._step_saved(h, saved, queues)]
        self._what_if_sweep(h, saved)  # a client exploring other states between two uses of the saved one
        again.append(self._step_saved(h, saved, queues) if not h.dead else None)
        if again[0] is None or again[1] is None:
            return
        h.flag("branched")
        h.stats["branches"] += 1
        if int(h.sim.sim_time) > int(saved.sim_time):
            h.flag("branched_after_later_steps")
        if again[0] != again[1]:
            yield Violation("C16", "stepping the same saved state twice gave different results (other states were explored on the side in between)", {"first_difference": first_diff(again[0], again[1])})
        elif again[0] != first:
            yield Violation("C16", "stepping a saved state gives another result after the simulation has moved on", {"first_difference": first_diff(first, again[0]), "saved_at": int(saved.sim_time), "now": int(h.sim.sim_time)})
        yield from self._check_retained(h, "after stepping a saved state")

    def finish(self, h):
        return self._check_retained(h, "at the end of the history")


from hv.base import quiet  # noqa: E402  (used by C16Immutable.branch)
