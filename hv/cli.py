"""./check <ID> <quick|thorough>   |   ./check <ID> --replay <file>   |   ./check --setup

Flow of a check: replay the committed regression corpus, run the generated campaign in
sharded worker processes, minimise and save a failing case, report known findings, guard
against vacuous runs, write the evidence file.
"""
from __future__ import annotations

import importlib
import json
import os
import sys
import time
import traceback
from pathlib import Path

from hv import base
from hv.base import Findings, ShardResult, merge, run_shards, seed_env, write_evidence, write_replay


def prop_module(pid: str):
    return importlib.import_module(f"hv.props.{pid.lower()}")


def shard_entry(prop: str, tier: str, seed: int, idx: int) -> ShardResult:
    return prop_module(prop).shard(tier, seed, idx)


def setup() -> int:
    ok = True
    try:
        import hypothesis  # noqa: F401
    except ImportError:
        import subprocess

        r = subprocess.run([sys.executable, "-m", "pip", "install", "--no-index", "--find-links", "/opt/veriftools/wheels",
                            "--target", str(base.VERIF / ".deps"), "hypothesis"], capture_output=True, text=True)
        ok = r.returncode == 0
        if not ok:
            print(r.stdout[-2000:], r.stderr[-2000:])
    try:
        base.hush()
        with base.quiet():
            import nrel.hive  # noqa: F401
        src = Path(nrel.hive.__file__).resolve()
        print(f"setup: hypothesis ok={ok}; nrel.hive from {src}")
        if base.REPO.resolve() not in src.parents:
            print(f"setup: WARNING nrel.hive is not imported from {base.REPO}")
            ok = False
    except Exception:
        traceback.print_exc()
        ok = False
    return 0 if ok else 2


def do_replay(pid: str, path: str) -> int:
    mod = prop_module(pid)
    body = json.loads(Path(path).read_text())
    case = body.get("case", body)
    v = mod.replay(case)
    if v is None:
        print(f"replay: property={pid} {path}: no violation")
        return 0
    fid = Findings().match(v)
    if fid is not None:
        print(f"KNOWN-FINDING: property={pid} {fid}: {v.key}")
        return 0
    print(f"replay: {v.key}: {json.dumps(base._jsonable(v.detail))[:600]}")
    print(f"VIOLATION property={pid} replay={path}")
    return 1


def run(pid: str, tier: str) -> int:
    t0 = time.time()
    seed = seed_env()
    mod = prop_module(pid)
    findings = Findings()
    violations = []  # (key, replay path)
    # 1. regression corpus (plain replays, no generation)
    n_corpus = 0
    for p in base.corpus(pid):
        n_corpus += 1
        body = json.loads(p.read_text())
        v = mod.replay(body.get("case", body))
        if v is not None and findings.match(v) is None:
            violations.append((v.key, p))
    # 2. generated campaign
    nsh = mod.nshards(tier)
    results = run_shards("hv.cli", "shard_entry", [dict(prop=pid, tier=tier, seed=seed, idx=i) for i in range(nsh)])
    m = merge(results)
    if m["errors"] and not m["failures"]:
        print(f"check {pid}: harness error in a worker (exit 2):\n{m['errors'][0]}")
        return 2
    # 3. failures -> minimise -> replay files (one per distinct key)
    seen = set()
    for f in sorted(m["failures"], key=lambda f: (f["violation"]["key"], len(json.dumps(f["case"])))):
        k = f["violation"]["key"]
        if k in seen:
            continue
        seen.add(k)
        case = f["case"]
        try:
            case = mod.minimise(f)
        except Exception:
            pass
        path = write_replay(pid, case, f["violation"], seed)
        violations.append((k, path))
    # 4. evidence
    ev = int(m["stats"].get("evaluations", 0))
    extra = {
        "stats": dict(m["stats"]),
        "labels": dict(sorted(m["labels"].items())),
        "known_finding_hits": dict(m["known"]),
        "regression_corpus_replayed": n_corpus,
        "shards": nsh,
        "shard_wall_s": m["shard_wall_s"],
        "python_hash_seed": os.environ.get("PYTHONHASHSEED"),
        "violation_keys": sorted({k for k, _ in violations}),
    }
    extra.update(getattr(mod, "extra_evidence", lambda m_: {})(m))
    write_evidence(pid, tier, seed, time.time() - t0, ev, len(m["nontrivial"]), mod.RULE, m["samples"], mod.ASSUMPTIONS, len(violations), extra)
    # 5. verdict
    for f in findings.for_property(pid):
        print(f"KNOWN-FINDING: property={pid} {f['id']}: {f['what']} (hits this run: {m['known'].get(f['id'], 0)})")
    if violations:
        for k, p in violations:
            print(f"violation: {k}")
            print(f"VIOLATION property={pid} replay={p}")
        return 1
    floors = getattr(mod, "FLOORS", {}).get(tier, {})
    low = {k: (int(m["labels"].get(k, m["stats"].get(k, 0))), need) for k, need in floors.items() if int(m["labels"].get(k, m["stats"].get(k, 0))) < need}
    if len(m["nontrivial"]) < 2:
        low["distinct_nontrivial"] = (len(m["nontrivial"]), 2)
    if low:
        print(f"check {pid}: INCONCLUSIVE, generator did not reach the property (measured, floor): {low}")
        return 2
    print(f"check {pid} {tier}: held on {ev} cases ({len(m['nontrivial'])} distinct non-trivial), seed {seed}, {time.time() - t0:.0f}s")
    return 0


def main(argv) -> int:
    base.hush()
    if not argv:
        print(__doc__)
        return 2
    if argv[0] == "--setup":
        return setup()
    pid = argv[0].upper()
    try:
        if len(argv) >= 3 and argv[1] == "--replay":
            return do_replay(pid, argv[2])
        tier = argv[1] if len(argv) > 1 else os.environ.get("VERIF_TIER", "quick")
        if tier not in ("quick", "thorough"):
            print(f"unknown tier {tier}")
            return 2
        return run(pid, tier)
    except Exception:
        traceback.print_exc()
        print(f"check {pid}: harness error (exit 2)")
        return 2


if __name__ == "__main__":
    sys.exit(main(sys.argv[1:]))
