"""C08 Location indexes always agree with the entities (DESIGN §C08).

Component level: a model-based stateful test on simulation_state_ops (add / move / remove of every entity kind
against a dict model). History level: the same recount after every step of whole histories."""
from __future__ import annotations

import collections
import dataclasses
from typing import Any, Dict, List, Set, Tuple

from hypothesis import strategies as st

from hv import comp, hprop
from hv.base import ShardResult, Violation
from hv.monitors import C08Index, index_recount
from hv.worlds import profile

PROP = "C08"
HIST = hprop.HistoryProperty(
    prop=PROP,
    monitors=lambda: [C08Index()],
    profile=profile(nv=(2, 7), n_requests=(5, 40), socs=[0.02, 0.3, 0.8, 0.97], timeouts=[60, 120, 300]),
    nontrivial=lambda f: {"cross_search_cell_move", "request_removed"} <= f,
    rule="", assumptions=[],
    quick=(6, 60, 40), thorough=(6, 800, 60), probes=True,
    instr_bias={"relocate": True, "kinds": [1, 1, 1, 8, 8, 8, 2, 5, 0, 3, 6]},
)
RULE = ("(a) component: operation sequences (<= 60) on simulation_state_ops: add / move / remove / pop vehicle, add / move / remove request, "
        "add / modify-in-place / attempt-to-move / remove station and base - each through the kind-specific function or, half the time, through the generic add_entity_safe / modify_entity_safe -, with cells from a pool built to hit same cell, neighbouring cell "
        "inside one search cell, neighbouring search cell, far cell, return to a previous cell and several entities per cell, search "
        "resolutions 5-12; reference model = dict id -> cell per kind; after every operation the entity maps, location indexes and search "
        "indexes must equal the model exactly (no stale, duplicated or empty entries) and station/base move attempts must fail and change "
        "nothing. (b) histories: the same recount after every step and single-instruction probe of generated histories. non-trivial (a) = "
        "sequence with a cross-search-cell move AND a return to a previous cell AND a removal from a shared cell; (b) = history with a "
        "cross-search-cell move and a request removal; distinct = sha1(case)")
ASSUMPTIONS = hprop.COMMON_ASSUMPTIONS + ["fresh entity ids only (re-adding a live id is outside what any caller does)"]
FLOORS = {"quick": {"ops": 5000, "flag:cross_search_cell_move": 100, "flag:removal_from_shared_cell": 30}, "thorough": {"ops": 100000}}

KINDS = ["v", "r", "s", "b"]
OPS = ["add", "add", "move", "move", "move", "remove", "pop", "touch"]


@st.composite
def st_case(draw) -> Dict[str, Any]:
    res = draw(st.sampled_from([5, 7, 7, 9, 11, 12]))
    ops = draw(st.lists(st.tuples(st.sampled_from(OPS), st.sampled_from(KINDS), st.integers(0, 7), st.sampled_from([0, 0, 1, 1, 2, 3, 4, 5, 6, 7, 8, 9, 10, 11]), st.integers(0, 2), st.booleans()).map(list), min_size=8, max_size=60))
    return {"res": res, "ops": ops}


def cell_pool(res: int) -> List[str]:
    """12 cells: 0-3 neighbours inside (usually) one search cell, 4-7 steps of one search-cell edge, 8-11 far away"""
    import h3

    base = h3.geo_to_h3(39.75, -104.99, 15)
    near = sorted(h3.k_ring(base, 1))[:4]
    edge_km = h3.edge_length(res, unit="km")
    step = edge_km / 111.0 * 1.7
    mid = [h3.geo_to_h3(39.75 + step * k, -104.99 + step * (k % 2), 15) for k in range(1, 5)]
    far = [h3.geo_to_h3(39.75 + dx, -104.99 + dy, 15) for dx, dy in [(0.02, 0.01), (0.05, 0.05), (0.2, 0.1), (-0.3, 0.2)]]
    return near + mid + far


def check_case(case: Dict[str, Any]) -> Tuple[List[Violation], Set[str], Dict[str, int]]:
    import h3
    from returns.result import Failure
    from nrel.hive.model.base import Base
    from nrel.hive.model.entity_position import EntityPosition
    from nrel.hive.model.membership import Membership
    from nrel.hive.model.request.request import Request
    from nrel.hive.model.roadnetwork.haversine_roadnetwork import HaversineRoadNetwork
    from nrel.hive.model.sim_time import SimTime
    from nrel.hive.model.station.station import Station
    from nrel.hive.model.vehicle.vehicle import Vehicle
    from nrel.hive.state.driver_state.autonomous_driver_state.autonomous_available import AutonomousAvailable
    from nrel.hive.state.driver_state.autonomous_driver_state.autonomous_driver_attributes import AutonomousDriverAttributes
    from nrel.hive.state.simulation_state import simulation_state_ops as ops
    from nrel.hive.state.simulation_state.simulation_state import SimulationState
    from nrel.hive.state.vehicle_state.idle import Idle
    import immutables
    from nrel.hive.model.energy.energytype import EnergyType

    out: List[Violation] = []
    flags: Set[str] = set()
    stats = collections.Counter()
    res = case["res"]
    rn = HaversineRoadNetwork()
    sim = SimulationState(road_network=rn, sim_h3_location_resolution=15, sim_h3_search_resolution=res)
    pool = cell_pool(res)
    model: Dict[str, Dict[str, str]] = {k: {} for k in KINDS}
    visited: Dict[str, Set[str]] = collections.defaultdict(set)
    coll = {"v": "vehicles", "r": "requests", "s": "stations", "b": "bases"}
    n = 0

    def pos(g):
        return EntityPosition(f"{g}-{g}", g)

    def mk(kind, i, g):
        if kind == "v":
            e = immutables.Map({EnergyType.ELECTRIC: 1.0})
            return Vehicle(id=i, mechatronics_id="m", energy=e, energy_gained=e, energy_expended=e, position=pos(g), vehicle_state=Idle.build(i),
                           driver_state=AutonomousAvailable(AutonomousDriverAttributes(i)), membership=Membership(), total_seats=4)
        if kind == "r":
            return Request.build(i, g, pool[0], rn, SimTime(0), 1, False)
        if kind == "s":
            return Station(id=i, position=pos(g), membership=Membership(), state=immutables.Map(), energy_dispensed=immutables.Map(), on_shift_access_chargers=frozenset())
        return Base(id=i, position=pos(g), membership=Membership(), total_stalls=1, available_stalls=1, station_id=None)

    def unwrap(r, what):
        if isinstance(r, Failure):
            out.append(Violation(PROP, f"{what} failed on a valid operation", {"op_index": oi, "error": repr(r.failure())[:200]}))
            return None
        return r.unwrap()

    def also_change(ent, kind, also):
        """an update may change other fields together with (or instead of) the position: a request is handed to / taken from
        a vehicle in the same update that moves its pickup point, a vehicle is paid while it moves"""
        if not also:
            return ent
        flags.add("update_changes_several_fields")
        if kind == "r":
            return ent.unassign_dispatched_vehicle() if ent.dispatched_vehicle is not None else ent.assign_dispatched_vehicle(f"v{also}", SimTime(oi))
        if kind == "v":
            return ent.receive_payment(1.0)
        return ent

    for oi, row in enumerate(case["ops"]):
        op, kind, sel, ci = row[:4]
        also = row[4] if len(row) > 4 else 0
        generic = bool(row[5]) if len(row) > 5 else False  # through the generic entity API (what runner_payload_ops.modify_entities uses)
        g = pool[ci % len(pool)]
        ids = sorted(model[kind])
        add = getattr(ops, {"v": "add_vehicle_safe", "r": "add_request_safe", "s": "add_station_safe", "b": "add_base_safe"}[kind])
        mod = getattr(ops, {"v": "modify_vehicle_safe", "r": "modify_request_safe", "s": "modify_station_safe", "b": "modify_base_safe"}[kind])
        rem = getattr(ops, {"v": "remove_vehicle_safe", "r": "remove_request_safe", "s": "remove_station_safe", "b": "remove_base_safe"}[kind])
        if generic:
            add, mod, rem = ops.add_entity_safe, ops.modify_entity_safe, rem
            flags.add("generic_entity_api")
        before = sim
        if op == "add" or not ids:
            n += 1
            i = f"{kind}{n}"
            s2 = unwrap(add(sim, mk(kind, i, g)), "add")
            if s2 is None:
                break
            sim = s2
            model[kind][i] = g
        else:
            i = ids[sel % len(ids)]
            ent = getattr(sim, coll[kind])[i]
            old = model[kind][i]
            if op == "move":
                moved = also_change(dataclasses.replace(ent, position=pos(g)), kind, also)
                if kind in ("s", "b"):
                    r = mod(sim, moved)
                    if g != old:
                        flags.add("station_base_move_attempt")
                        if not isinstance(r, Failure):
                            out.append(Violation(PROP, "moving a station or base was accepted", {"op_index": oi, "kind": kind}))
                            break
                    else:
                        s2 = unwrap(r, "modify in place")
                        if s2 is None:
                            break
                        sim = s2
                else:
                    s2 = unwrap(mod(sim, moved), "move")
                    if s2 is None:
                        break
                    sim = s2
                    model[kind][i] = g
                    if g != old:
                        if h3.h3_to_parent(g, res) != h3.h3_to_parent(old, res):
                            flags.add("cross_search_cell_move")
                        else:
                            flags.add("move_inside_search_cell")
                        if g in visited[i]:
                            flags.add("return_to_previous_cell")
                        visited[i].add(old)
            elif op == "touch":  # modify without moving
                s2 = unwrap(mod(sim, also_change(ent, kind, also)), "modify in place")
                if s2 is None:
                    break
                sim = s2
            else:  # remove / pop
                shared = sum(1 for x in model[kind].values() if x == old) > 1
                if op == "pop" and kind == "v":
                    r = ops.pop_vehicle_safe(sim, i)
                    if isinstance(r, Failure):
                        out.append(Violation(PROP, "pop failed on a valid operation", {"op_index": oi}))
                        break
                    sim, popped = r.unwrap()
                    if popped.id != i:
                        out.append(Violation(PROP, "pop returned another vehicle", {"op_index": oi}))
                else:
                    s2 = unwrap(rem(sim, i), "remove")
                    if s2 is None:
                        break
                    sim = s2
                del model[kind][i]
                if shared:
                    flags.add("removal_from_shared_cell")
        stats["ops"] += 1
        vs = list(index_recount(sim, f"after op {oi} ({op} {kind})"))
        for k in KINDS:
            ents = getattr(sim, coll[k])
            if {i: e.geoid for i, e in ents.items()} != model[k]:
                vs.append(Violation(PROP, f"entities differ from the model after op {oi} ({op} {k})", {"got": {i: e.geoid for i, e in ents.items()}, "model": model[k]}))
        if vs:
            # normalise keys: drop the op index so that root causes bucket together
            for v in vs:
                v.key = v.key.split(" after op ")[0] + f" after {op} {kind}"
            out.extend(vs)
            break
    return out, flags, dict(stats)


def nshards(tier):
    return 16


def shard(tier, seed, idx) -> ShardResult:
    if idx < 10:
        res = ShardResult()
        comp.run(PROP, st_case(), check_case, lambda f: {"cross_search_cell_move", "return_to_previous_cell", "removal_from_shared_cell"} <= f, res,
                 cases=250 if tier == "quick" else 6000, seed=seed * 1000 + idx, kind="component")
        return res
    return hprop.shard(HIST, tier, seed, idx)


def replay(case):
    if case.get("kind") == "component":
        return comp.replay(PROP, check_case, case)
    return hprop.replay_case(HIST, case)


def minimise(failure):
    if failure["case"].get("kind") == "component":
        return failure["case"]
    return hprop.minimise_and_replayable(HIST, failure)
