"""C09 Instructions apply all-or-nothing, one per vehicle per step (DESIGN §C09)."""
from hv import hprop
from hv.monitors import C09Atomic
from hv.worlds import profile

hprop.install(globals(), hprop.HistoryProperty(
    prop="C09",
    monitors=lambda: [C09Atomic()],
    profile=profile(nv=(2, 6), n_requests=(4, 30), socs=[0.003, 0.05, 0.3, 0.8, 0.97, 0.995], n_scripted=[1, 2, 2, 3, 3], fleets=[0, 0, 1, 2, 3]),
    nontrivial=lambda f: "rejected_from_holder" in f and "accepted_probe" in f,
    rule=("stateful histories over generated worlds; part 1: in every reached state single instructions of all 9 types x vehicle classes x "
          "target classes (missing, remote, full, other fleet's, wrong plug) are applied with apply_instructions to the current state and the "
          "result observed (not adopted): activity instance unchanged => vehicles, stations, bases, requests and all eight indexes equal to "
          "before; changed => activity of the instructed class, nothing else's vehicle changed, and the plug/stall, location and assignment "
          "recounts hold on the result; batches of 2-5 instructions must equal applying only their accepted ones. part 2: with 1-3 scripted "
          "generators after the built-in ones and human/autonomous drivers, the INSTRUCTION reports of each step must contain at most one per "
          "vehicle, equal to the driver's own instruction (recomputed on the state handed to the generators) if any, else the last one "
          "generated in configured order. non-trivial = history with >=1 rejected probe from a resource-holding activity and >=1 accepted "
          "probe; evidence lists the matrix previous activity x instruction x outcome; distinct = sha1(world, op log)"),
    assumptions=hprop.COMMON_ASSUMPTIONS + [
        "applied_instructions is bookkeeping of selected instructions and not part of the 'nothing changes' comparison (the statement enumerates plugs, stalls and request assignments)",
        "reposition instructions carry well-formed link ids",
    ],
    quick=(16, 60, 40), thorough=(16, 500, 60), probes=True,
    instr_bias={"batches": True, "reinject": True, "raw": True},
))
FLOORS = {"quick": {"probes": 600, "precedence_checks": 8000, "flag:competing_instructions": 40, "flag:driver_overrode_generator": 30},
          "thorough": {"probes": 15000}}


def extra_evidence(m):
    cells = {k[2:]: v for k, v in m["labels"].items() if k.startswith("m:")}
    prevs = sorted({k.split(":")[0] for k in cells})
    return {"matrix_cells_hit": len(cells), "matrix_cells_possible": 11 * 9 * 2, "previous_activities_seen": prevs}
