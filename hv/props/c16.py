"""C16 Earlier simulation states are never modified (DESIGN §C16)."""
from hv import hprop
from hv.monitors import C16Immutable
from hv.worlds import profile

hprop.install(globals(), hprop.HistoryProperty(
    prop="C16",
    monitors=lambda: [C16Immutable()],
    profile=profile(nv=(2, 6), n_requests=(5, 30), socs=[0.003, 0.05, 0.3, 0.8, 0.95, 0.97, 0.985], builtin=[True, True, False], nets=["hav", "gen", "gen", "denver"],
                    human_share=[False, False, True], max_plugs=1),
    nontrivial=lambda f: {"five_rich_steps_after_retain", "branched"} <= f,
    rule=("stateful histories over generated worlds of every kind; rule `retain` keeps a reference to the current SimulationState (up to 8 per "
          "case) with its deep canonical fingerprint (recursive walk over NamedTuples, dataclasses, immutables.Map, tuples, frozensets, enums, "
          "numpy arrays, UUIDs - including instance ids); after every later step, single-instruction application and at the end each retained "
          "state's fingerprint must be unchanged; rule `branch` runs StepSimulation.update twice on a retained state with the same scripted "
          "controller queues and the built-in generators, with a what-if sweep in between (from the current and the other retained states every vehicle "
          "is sent to stations, bases and requests, one instruction at a time on the side, up to 120 applications): results equal modulo instance ids, "
          "and equal to the result recorded when the state was retained; half of the branches instead run the saved state forward 3, 6 or 10 steps, twice, "
          "and compare the end results. non-trivial = retained state followed by >=5 steps "
          "that each changed vehicles, a station and a request, and >=1 branch; distinct = sha1(world, op log)"),
    assumptions=hprop.COMMON_ASSUMPTIONS + [
        "'the same step twice' is asserted for the step function on a saved state (StepSimulation.update), not for re-reading an input file: the file readers inside Update are cursors by design",
        "only code paths the histories execute are observed",
    ],
    quick=(16, 70, 40), thorough=(16, 800, 60), probes=True, retains=True,
    # plugs are throttled co-simulation style as well: two effective powers for one vehicle type exercise shared model tables
    instr_bias={"throttle": True, "rush": True, "kinds": [2, 2, 2, 2, 2, 1, 1, 0, 3, 4, 5, 6, 7, 8]},
))
FLOORS = {"quick": {"retained_state_checks": 4000, "branches": 190}, "thorough": {"branches": 5000}}
