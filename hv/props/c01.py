"""C01 Runs are reproducible across processes and hash seeds (DESIGN §C01)."""
from __future__ import annotations

import collections
import json
import os
import subprocess
import sys
from typing import Any, Dict, List, Optional, Set, Tuple

from hypothesis import strategies as st

from hv import comp
from hv.base import REPO, VERIF, ShardResult, Violation, seed_env
from hv.worlds import profile, st_world, world_summary

PROP = "C01"
RULE = ("the harness owns the process / hash-seed dimension: a pool of long-lived worker processes, each started with a different PYTHONHASHSEED and a different local time zone (TZ) "
        "(always including 0, 1 and 3), one of them a brand-new process for every scenario while the others are long-lived and load and step a small warm-up world (other vehicle definitions under the same ids) first, plus one worker that runs every scenario twice in one process; the parent draws one pure-data scenario and "
        "ships it to all workers: (a) generated file-based scenarios rich in ties and shared membership (vehicles stacked on one site, requests with "
        "equal value / origin / timestamp, one-plug stations reached in the same step, stations with 2-3 on-shift plug types, co-located bases, "
        "vehicles in several fleets, human and autonomous drivers, both charging search types, all network kinds, built-in generators plus a "
        "deterministic scripted controller; in half of the scenarios the Dispatcher is re-injected every 10 steps through runner_payload_ops.update_instruction_generator, as co-simulation controllers do); (b) the shipped Denver scenarios. Every worker steps with hive_cosim.crank(rp, 1) and returns per step a "
        "digest of the canonical state (instance ids stripped, set-valued fields sorted) and of the sorted multiset of that step's reports (session ids "
        "stripped, membership lists sorted), and the summary statistics at the end; all workers must agree exactly; on disagreement the first "
        "differing step is re-run with full canonical states to name the differing entity. non-trivial = scenario in which a worker saw an "
        "order-sensitive situation (two instructions naming one station/base/request in one step, two queued vehicles with equal enqueue time, a "
        "multi-fleet vehicle dispatched, a station with several on-shift plug types chosen); distinct = sha1(scenario)")
ASSUMPTIONS = ["a two-element set flips iteration order between two random hash seeds with p ~ 1/2: the check leans on many exposed cases rather than many seeds",
               "Manhattan-scale scenarios are excluded for size; the OSM loader workaround is used for street graphs",
               "per-run random tags (uuid4 instance / session ids), order of lines within one step and order inside set-valued fields are not compared"]
FLOORS = {"quick": {"scenarios": 20, "worker_steps": 5000, "flag:competing_instructions_for_one_entity": 3}, "thorough": {"scenarios": 200}}

SHIPPED = ["denver_demo.yaml", "denver_demo_fleets.yaml", "denver_demo_constrained_charging.yaml", "denver_no_stations.yaml", "denver_rl_toy.yaml"]
PROFILE = profile(nv=(3, 8), n_requests=(10, 60), builtin=[True], n_scripted=[1], fleets=[0, 1, 2, 2, 3], socs=[0.08, 0.12, 0.13, 0.3, 0.9, 0.97],
                  max_plugs=1, stations=(1, 3), bases=(1, 3), timeouts=[300, 600], steps=[30, 60, 60, 120, 300], humans=True)


WORKER_TZ = [None, "JST-9", "MST7", "CET-1", "UTC0"]


FRESH = 1  # the worker that is a brand-new process for every scenario


class Pool:
    def __init__(self, hash_seeds: List[int]):
        self.seeds = hash_seeds
        self.procs = [self._spawn(i) for i in range(len(hash_seeds))]
        self.spare = None

    def _spawn(self, i: int):
        env = dict(os.environ)
        env["PYTHONHASHSEED"] = str(self.seeds[i])
        env["PYTHONPATH"] = f"{REPO}:{VERIF}:{VERIF}/.deps"
        # "whichever process runs it": the workers also differ in their local time zone (POSIX TZ strings, no zone
        # database needed): worker 0 keeps the caller's zone, the others run at UTC+9, UTC-7, UTC+1, ...
        tz = WORKER_TZ[i % len(WORKER_TZ)]
        if tz is not None:
            env["TZ"] = tz
        return subprocess.Popen([sys.executable, "-m", "hv.c01worker"], stdin=subprocess.PIPE, stdout=subprocess.PIPE, stderr=subprocess.DEVNULL,
                                env=env, cwd=str(VERIF), text=True, bufsize=1)

    def _retire(self, p) -> None:
        try:
            p.stdin.write(json.dumps({"kind": "quit"}) + "\n")
            p.stdin.flush()
            p.stdin.close()
            p.wait(timeout=20)
        except Exception:
            p.kill()

    def run(self, job: Dict[str, Any], only: Optional[List[int]] = None) -> List[Dict[str, Any]]:
        idx = list(range(len(self.procs))) if only is None else only
        if FRESH in idx and len(self.procs) > FRESH:
            # "whichever process runs it": worker FRESH is a new process for every scenario and runs nothing else, while the long-lived
            # workers have the earlier scenarios (and this scenario's warm-up world) behind them. The replacement was started
            # while the previous scenario ran, so its imports are done.
            self._retire(self.procs[FRESH])
            self.procs[FRESH] = self.spare if self.spare is not None else self._spawn(FRESH)
            self.spare = self._spawn(FRESH)
        for i in idx:
            j = dict(job)
            if i == FRESH:
                j.pop("warm", None)
            j["twice"] = (i == len(self.procs) - 1) and only is None  # last worker repeats in-process
            self.procs[i].stdin.write(json.dumps(j) + "\n")
            self.procs[i].stdin.flush()
        out = []
        for i in idx:
            line = self.procs[i].stdout.readline()
            if not line:
                raise RuntimeError(f"C01 worker with PYTHONHASHSEED={self.seeds[i]} died")
            out.append(json.loads(line))
        return out

    def close(self):
        if self.spare is not None:
            self.procs.append(self.spare)
            self.spare = None
        for p in self.procs:
            try:
                p.stdin.write(json.dumps({"kind": "quit"}) + "\n")
                p.stdin.flush()
                p.stdin.close()
            except Exception:
                pass
        for p in self.procs:
            try:
                p.wait(timeout=20)
            except Exception:
                p.kill()


_POOL: Optional[Pool] = None


def hash_seeds(seed: int, shard: int, n: int) -> List[int]:
    base = [0, 1, 3]
    extra = [(seed * 7919 + shard * 104729 + k * 15485863) % 4294967295 for k in range(1, n)]
    return (base + extra)[: n - 1] + [extra[-1] + 1]  # last one hosts the in-process repetition


def _compare(job, results, seeds, pool) -> List[Violation]:
    from hv.canon import first_diff

    bad = [r for r in results if not r.get("ok")]
    if bad:
        raise RuntimeError("C01 worker failed: " + bad[0]["error"])
    ref = results[0]
    for i, r in enumerate(results[1:], start=1):
        for k in range(len(ref["states"])):
            if ref["states"][k] != r["states"][k] or ref["events"][k] != r["events"][k]:
                what = "entity states" if ref["states"][k] != r["states"][k] else "reported events"
                d = dict(job, detail=k)
                fa, fb = pool.run(d, only=[0, i])
                if what == "entity states":
                    diff = first_diff(_tup(fa["full"]["state"]), _tup(fb["full"]["state"]))
                else:
                    ea, eb = set(fa["full"]["events"]), set(fb["full"]["events"])
                    diff = {"only_with_seed_a": sorted(ea - eb)[:2], "only_with_seed_b": sorted(eb - ea)[:2]}
                return [Violation(PROP, f"{what} differ between processes (different hash seeds and time zones)", {"step": k, "hash_seeds": [seeds[0], seeds[i]], "first_difference": diff})]
        if ref["summary"] != r["summary"]:
            return [Violation(PROP, "summary statistics differ between processes (different hash seeds and time zones)", {"hash_seeds": [seeds[0], seeds[i]]})]
    last = results[-1]
    if last.get("repeat_equal") is False:
        return [Violation(PROP, "two runs in one process differ", {"first_differing_step": last.get("repeat_first_diff"), "hash_seed": seeds[-1]})]
    return []


def _tup(o):
    return tuple(_tup(x) for x in o) if isinstance(o, list) else o


def check_case(case: Dict[str, Any], pool: Optional[Pool] = None, seeds: Optional[List[int]] = None) -> Tuple[List[Violation], Set[str], Dict[str, int]]:
    own = pool is None
    if own:
        seeds = case.get("hash_seeds") or hash_seeds(seed_env(), 0, 4)
        pool = Pool(seeds)
    try:
        if case.get("shipped"):
            job = {"kind": "shipped", "name": case["shipped"], "steps": case["steps"], "reinject": case.get("reinject", False)}
        else:
            job = {"kind": "spec", "world": case["world"], "steps": case["steps"], "det": case.get("det", False), "reinject": case.get("reinject", False)}
            if case.get("warm"):
                job["warm"] = case["warm"]
        results = pool.run(job)
        out = _compare(job, results, seeds, pool)
        for v in out:
            v.detail["replay_hash_seeds"] = seeds
        flags = set(results[0].get("flags", [])) if results[0].get("ok") else set()
        stats = {"scenarios": 1, "worker_steps": case["steps"] * len(seeds), "events_compared": results[0].get("n_events", 0)}
        return out, flags, stats
    finally:
        if own:
            pool.close()


# second profile, built to make equal-time queue ties decide something: many low vehicles of one small-battery type stacked on
# two sites, one or two one-plug stations, no requests in the way - they are sent to charge together, arrive together, queue with
# equal enqueue times, and plugs are released one at a time over a long run
PROFILE_QUEUE = profile(nv=(5, 9), n_requests=(0, 6), builtin=[True], n_scripted=[1], fleets=[0, 0, 2], socs=[0.05, 0.08, 0.08, 0.1, 0.12],
                        mechs=["tiny_bev", "tiny_bev", "tiny_bev", "leaf_50", "tiny_ice"], max_plugs=1, max_ptypes=2, stations=(1, 2), bases=(1, 2),
                        timeouts=[600], steps=[60, 60, 120, 300], humans=False, soc_limits=[0.8, 1.0], plug_types=["DCFC", "DCFC", "LEVEL_2", "GAS_PUMP"])


def _mech_variant(k: int) -> Optional[Dict[str, Any]]:
    """vehicle definitions are input: the same ids with other nominal consumptions / idle draws (None = the standard table)"""
    import copy

    from hv.worlds import MECHATRONICS_YAML

    if not k:
        return None
    m = copy.deepcopy(MECHATRONICS_YAML)
    f = [None, 1.5, 0.7][k]
    for d in m.values():
        for key in ("nominal_watt_hour_per_mile", "idle_kwh_per_hour", "idle_gallons_per_hour"):
            if key in d:
                d[key] = round(d[key] * f, 4)
        if "nominal_miles_per_gallon" in d:
            d["nominal_miles_per_gallon"] = round(d["nominal_miles_per_gallon"] / f, 3)
    return m


@st.composite
def st_case(draw) -> Dict[str, Any]:
    case = draw(_st_case())
    mv = _mech_variant(draw(st.sampled_from([0, 0, 1, 2])))
    if mv is not None:
        case["world"]["mechatronics"] = mv
    # what the long-lived workers have loaded and stepped in the same process just before (the fresh worker has not):
    # another small world with its own vehicle definitions
    if draw(st.booleans()):
        warm = draw(st_world(profile(nv=(1, 3), n_requests=(0, 4), builtin=[True], n_scripted=[1], fleets=[0], stations=(1, 1), bases=(1, 1), nets=["hav"], humans=False)))
        wv = _mech_variant(draw(st.sampled_from([0, 1, 2])))
        if wv is not None:
            warm["mechatronics"] = wv
        case["warm"] = warm
    return case


@st.composite
def _st_case(draw) -> Dict[str, Any]:
    if draw(st.sampled_from([False, False, True])):
        w = draw(st_world(PROFILE_QUEUE))
        # stack the vehicles on at most two sites
        a, b = w["vehicles"][0]["site"], w["vehicles"][-1]["site"]
        for k, v in enumerate(w["vehicles"]):
            v["site"] = a if k % 3 else b
        return {"world": w, "steps": draw(st.integers(120, 200)), "det": False, "reinject": draw(st.booleans())}
    w = draw(st_world(PROFILE))
    return {"world": w, "steps": draw(st.integers(60, 150)), "det": draw(st.booleans()), "reinject": draw(st.booleans())}


def nshards(tier):
    return 3


def shard(tier, seed, idx) -> ShardResult:
    res = ShardResult()
    nworkers = 5 if tier == "quick" else 5
    seeds = hash_seeds(seed, idx, nworkers)
    pool = Pool(seeds)
    res.labels["hash_seeds:" + ",".join(map(str, seeds))] += 1
    try:
        def chk(case):
            case = dict(case)
            case["hash_seeds"] = seeds
            return check_case(case, pool, seeds)

        if idx == 0:  # shipped scenarios
            steps = 240 if tier == "quick" else 1440
            for name in SHIPPED:
                case = {"shipped": name, "steps": steps, "hash_seeds": seeds, "kind": "shipped", "reinject": name.endswith("demo.yaml")}
                vs, flags, stats = check_case(case, pool, seeds)
                res.stats["evaluations"] += 1
                res.stats["shipped_scenarios"] += 1
                for k, v in stats.items():
                    res.stats[k] += v
                for f in flags:
                    res.labels["flag:" + f] += 1
                if flags:
                    res.nontrivial.add("shipped:" + name)
                    res.samples.append({"shipped": name, "steps": steps, "observed": sorted(flags)})
                from hv.base import Findings

                fnd = Findings()
                for v in vs:
                    fid = fnd.match(v)
                    if fid is not None:
                        res.known[fid] += 1
                    elif res.failure is None:
                        res.failure = {"violation": v.to_json(), "case": case}
                if res.failure is not None:
                    break
        if res.failure is None:
            n = (14 if idx == 0 else 30) if tier == "quick" else (150 if idx == 0 else 400)
            comp.run(PROP, st_case(), chk, lambda f: bool(f), res, cases=n, seed=seed * 1000 + idx, kind="spec", shrink=False,
                     sample_fn=lambda c: {"world": world_summary(c["world"]), "steps": c["steps"], "det": c["det"], "hash_seeds": c.get("hash_seeds")})
    finally:
        pool.close()
    return res


def replay(case):
    vs, _, _ = check_case(case)
    return vs[0] if vs else None


def minimise(failure):
    return failure["case"]
