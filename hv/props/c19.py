"""C19 The event log accounts for every state change (DESIGN §C19)."""
from __future__ import annotations

import collections
import json
import re
from pathlib import Path
from typing import Any, Dict, List, Set, Tuple

from hypothesis import strategies as st

from hv import comp
from hv.base import ShardResult, TOL, Violation, quiet
from hv.worlds import World, profile, st_world, world_summary

PROP = "C19"
RULE = ("generated file-based scenarios run through the real handlers (EventfulHandler writing event.log, StatsHandler, VehicleChargeEventsHandler "
        "with get_events()/clear() between groups of cranks) with built-in and deterministic scripted controllers, request ids that come round again in a third of the worlds; three independent views are "
        "reconciled: the parsed log, per-step state snapshots with the step's reports captured by a handler of the harness, and the summary: every log "
        "line parses as JSON with the documented keys; per vehicle sum(move.distance_km) == odometer and sum(charge.energy) == energy gained; per "
        "station and flush block station_load.energy == sum of that block's charge energies there; stats.requests / cancelled_requests == #add / "
        "#cancel lines; per step a request leaving the waiting set <-> exactly one pickup or cancel, a vehicle's gained energy rising <-> exactly one "
        "charge event with that energy, a carrying vehicle reaching its destination <-> exactly one drop-off; the log holds each captured event exactly "
        "once; pickup wait in [0, timeout + step]; charge events obtained through get_events()/clear() cycles partition the log's charge events. "
        "non-trivial = run with a pickup, drop-off, cancellation, charge and move, and two vehicles charging at one station in one step; distinct = sha1(case)")
ASSUMPTIONS = ["a 'step' of the log is one flush of the reporter (block of station_load lines followed by that flush's events)",
               "log_sim_config is the shipped default (everything) in two thirds of the runs and a generated subset in the rest; a record type that is not selected is reconciled from the reports the harness' own handler captured", "PYTHONHASHSEED pinned to 0"]
FLOORS = {"quick": {"log_lines": 14000, "flag:pickup": 28, "flag:charge": 30, "flag:two_charging_one_station": 5}, "thorough": {"log_lines": 500000}}

PROFILE = profile(nv=(2, 6), n_requests=(10, 60), builtin=[True], n_scripted=[1], socs=[0.05, 0.1, 0.12, 0.3, 0.8, 0.97, 1.0, 1.0], prices_always=True,
                  mechs=["leaf_50", "leaf_50", "tiny_bev", "toyota_corolla", "tiny_ice"], max_plugs=2, timeouts=[120, 300, 600], fleets=[0, 0, 2])
DOC_KEYS = {
    "add_request_event": ["request_id", "departure_time"],
    "pickup_request_event": ["request_id", "vehicle_id", "geoid", "lat", "lon", "pickup_time", "request_time", "wait_time_seconds", "price"],
    "cancel_request_event": ["request_id", "departure_time", "cancel_time"],
    "vehicle_charge_event": ["station_id", "vehicle_id", "vehicle_state", "sim_time_start", "sim_time_end", "energy", "energy_units", "geoid", "lat", "lon", "price", "charger_id"],
    "vehicle_move_event": ["vehicle_id", "vehicle_state", "sim_time_start", "sim_time_end", "energy", "energy_units", "geoid", "lat", "lon", "distance_km", "route_wkt"],
    "station_load_event": ["station_id", "sim_time_start", "sim_time_end", "energy", "energy_units"],
    "dropoff_request_event": ["request_id", "vehicle_id", "geoid"],
    "driver_schedule_event": ["vehicle_id", "vehicle_state", "sim_time_start", "sim_time_end", "geoid", "lat", "lon", "wkt", "schedule_event"],
}


LOGGABLE = ["add_request_event", "pickup_request_event", "dropoff_request_event", "cancel_request_event", "vehicle_charge_event",
            "vehicle_move_event", "station_load_event", "driver_schedule_event", "refuel_search_event"]


@st.composite
def st_case(draw) -> Dict[str, Any]:
    w = draw(st_world(PROFILE))
    # request ids are free text and may come round again (a second day of the same demand file, a client numbering per hour): in a
    # third of the worlds some later rows re-use the id of a row whose request has long left (departure + timeout + 3 steps earlier)
    if draw(st.sampled_from([False, False, True])):
        gap = w["sim"]["request_cancel_time_seconds"] + 3 * w["sim"]["timestep_duration_seconds"]
        last_use: Dict[str, int] = {}
        for j, r in enumerate(w["requests"]):
            old = [i for i, t_ in sorted(last_use.items()) if r["t"] > t_ + gap and not i.startswith("m")]
            if old and j % 2 == 0 and not r["id"].startswith("m"):
                r["id"] = old[0]
                w["reused_request_ids"] = True
            last_use[r["id"]] = r["t"]
    # which report types the user wants in event.log is configuration (log_sim_config in .hive.yaml; default: all)
    if draw(st.sampled_from([False, False, True])):
        w["log_types"] = sorted(draw(st.sets(st.sampled_from(LOGGABLE), min_size=1)) | draw(st.sampled_from([set(), {"station_load_event"}])))
    return {"world": w, "nsteps": draw(st.integers(20, 120)), "window": draw(st.integers(1, 15)), "det": draw(st.booleans()),
            # a clumsy controller as well: now and then it sends a vehicle to a plug its powertrain cannot use (the vehicle then
            # waits there and its update is refused step after step), so that refused vehicle updates occur in the run
            "clumsy": draw(st.booleans()) and w["dispatcher"].get("charging_search_type") != "shortest_time_to_charge"}


def _clumsy_controller():
    from nrel.hive.dispatcher.instruction import instructions as I
    from nrel.hive.dispatcher.instruction_generator.instruction_generator import InstructionGenerator

    class ClumsyController(InstructionGenerator):
        """deterministic and stateless: every 9th step one idle vehicle is sent to a plug of the wrong energy type"""

        def generate_instructions(self, sim, env):
            k = int(sim.sim_time) // int(sim.sim_timestep_duration_seconds)
            out = []
            vs = sorted(v.id for v in sim.vehicles.values() if type(v.vehicle_state).__name__ == "Idle")
            if k % 9 == 2 and vs:
                v = sim.vehicles[vs[-1 - (k // 9) % len(vs)]]  # from the end of the id order
                mech = env.mechatronics.get(v.mechatronics_id)
                for sid in sorted(sim.stations.keys()):
                    wrong = [c for c in sorted(sim.stations[sid].state.keys()) if mech is not None and not mech.valid_charger(sim.stations[sid].state[c].charger)]
                    if wrong:
                        out.append(I.DispatchStationInstruction(v.id, sid, wrong[0]))
                        break
            return self, tuple(out)

    return ClumsyController()


def _seconds(text: str) -> float:
    """str(timedelta) -> seconds ('0:01:00', '1 day, 0:00:05', '-1 day, 23:59:00')"""
    m = re.fullmatch(r"(?:(-?\d+) days?, )?(\d+):(\d\d):(\d\d)(?:\.(\d+))?", text.strip())
    if not m:
        raise ValueError(text)
    d, h, mi, s, frac = m.groups()
    return int(d or 0) * 86400 + int(h) * 3600 + int(mi) * 60 + int(s) + (float("0." + frac) if frac else 0.0)


def check_case(case: Dict[str, Any]) -> Tuple[List[Violation], Set[str], Dict[str, int]]:
    from nrel.hive.app import hive_cosim
    from nrel.hive.reporting.handler.stats_handler import StatsHandler
    from nrel.hive.reporting.handler.vehicle_charge_events_handler import VehicleChargeEventsHandler
    from hv.history import _mk_capture, sname
    from hv.props.c15 import _det_controller

    out: List[Violation] = []
    flags: Set[str] = set()
    stats = collections.Counter()
    w = case["world"]
    dt = w["sim"]["timestep_duration_seconds"]
    timeout = w["sim"]["request_cancel_time_seconds"]
    world = World(w, gens=None, real_handlers=True, end_steps=case["nsteps"] + 5)
    closed = False
    try:
        rp = world.rp
        if case["det"]:
            from nrel.hive.dispatcher.instruction_generator.charging_fleet_manager import ChargingFleetManager
            from nrel.hive.dispatcher.instruction_generator.dispatcher import Dispatcher
            from nrel.hive.runner import runner_payload_ops as rpo

            cfg = rp.e.config.dispatcher
            rp = rpo.set_instruction_generators(rp, (Dispatcher(cfg), ChargingFleetManager(cfg), _det_controller()) + ((_clumsy_controller(),) if case.get("clumsy") else ()))
        cap = _mk_capture()()
        rp.e.reporter.add_handler(cap)
        ch = VehicleChargeEventsHandler()  # what hive_cosim.load_scenario registers for co-simulation users
        rp.e.reporter.add_handler(ch)
        windows: List[int] = []  # number of charge events each get_events()/clear() cycle returned
        window_true: List[int] = []  # number of charge events captured in the same cranks
        since = 0
        carrying_prev: Dict[str, str] = {}
        for k in range(case["nsteps"]):
            before = rp.s
            with quiet():
                rp = hive_cosim.crank(rp, 1).runner_payload
            ev = cap.steps[-1]
            after = rp.s
            ctx = {"step": k}
            byt = collections.defaultdict(list)
            for t_, e in ev:
                byt[t_].append(e)
            since += len(byt["VEHICLE_CHARGE_EVENT"])
            # ---- state-diff <-> event bijection
            admitted = {e["request_id"] for e in byt["ADD_REQUEST_EVENT"]}
            gone = (set(before.requests.keys()) | admitted) - set(after.requests.keys())
            resolved = collections.Counter(e["request_id"] for e in byt["PICKUP_REQUEST_EVENT"] + byt["CANCEL_REQUEST_EVENT"])
            for rid in gone:
                if resolved.get(rid, 0) != 1:
                    out.append(Violation(PROP, f"request left the waiting set with {resolved.get(rid, 0)} pickup/cancel events", dict(ctx, request=rid)))
            for rid, n_ in resolved.items():
                if rid not in gone:
                    out.append(Violation(PROP, "pickup/cancel event for a request that did not leave the waiting set", dict(ctx, request=rid)))
            for v in after.vehicles.values():
                b = before.vehicles[v.id]
                et = next(iter(v.energy.keys()))
                dg = float(v.energy_gained[et] - b.energy_gained[et])
                mine = [e for e in byt["VEHICLE_CHARGE_EVENT"] if e["vehicle_id"] == v.id]
                if dg > 0 or mine:
                    flags.add("charge")
                    if len(mine) != 1:
                        out.append(Violation(PROP, f"vehicle gained energy with {len(mine)} charge events in the step", dict(ctx, vehicle=v.id, gained=dg)))
                    elif abs(float(mine[0]["energy"]) - dg) > 1e-9:
                        out.append(Violation(PROP, "charge event energy != energy gained in the step", dict(ctx, vehicle=v.id, event=mine[0]["energy"], gained=dg)))
                moved = [e for e in byt["VEHICLE_MOVE_EVENT"] if e["vehicle_id"] == v.id]
                dd = float(v.distance_traveled_km - b.distance_traveled_km)
                if (dd > 0 or moved):
                    flags.add("move")
                    if len(moved) != 1 or abs(float(moved[0]["distance_km"]) - dd) > 1e-9:
                        out.append(Violation(PROP, f"odometer change not explained by exactly one move event ({len(moved)} events)", dict(ctx, vehicle=v.id, odometer=dd)))
                # drop-off: a carrying vehicle whose route became empty in this step (or pickup and arrival in one step)
                was = sname(b) == "ServicingTrip" and len(b.vehicle_state.route) > 0
                arrived = sname(v) == "ServicingTrip" and len(v.vehicle_state.route) == 0 and (was or sname(b) != "ServicingTrip" or b.vehicle_state.instance_id != v.vehicle_state.instance_id)
                drops = [e for e in byt["DROPOFF_REQUEST_EVENT"] if e["vehicle_id"] == v.id]
                if arrived:
                    flags.add("dropoff")
                    if len(drops) != 1 or drops[0]["request_id"] != v.vehicle_state.request.id:
                        out.append(Violation(PROP, f"arrival with passengers reported by {len(drops)} drop-off events", dict(ctx, vehicle=v.id)))
                elif drops:
                    out.append(Violation(PROP, "drop-off event without an arrival with passengers", dict(ctx, vehicle=v.id)))
            per_station = collections.Counter(e["station_id"] for e in byt["VEHICLE_CHARGE_EVENT"])
            if per_station and max(per_station.values()) >= 2:
                flags.add("two_charging_one_station")
            for e in byt["PICKUP_REQUEST_EVENT"]:
                flags.add("pickup")
                wait = e["wait_time_seconds"].total_seconds()
                if not (0 <= wait <= timeout + dt):
                    same = e["request_id"] in admitted
                    out.append(Violation(PROP, "pickup waiting time outside [0, timeout + step]" + (" (pickup in the step that admitted the request)" if same else ""),
                                         dict(ctx, request=e["request_id"], wait_s=wait, timeout=timeout, dt=dt, pickup_time=int(e["pickup_time"]), request_time=int(e["request_time"]))))
            if byt["CANCEL_REQUEST_EVENT"]:
                flags.add("cancel")
            if out:
                break
            # ---- co-simulation charge-event windows
            if (k + 1) % case["window"] == 0:
                got = ch.get_events()
                n_got = len(got["vehicle_id"])
                if not (len(got["energy"]) == len(got["sim_time_start"]) == len(got["sim_time_end"]) == len(got["units"]) == n_got):
                    out.append(Violation(PROP, "charge event columns have different lengths", dict(ctx)))
                windows.append(n_got)
                window_true.append(since)
                ch.clear()
                since = 0
                if n_got != window_true[-1]:
                    out.append(Violation(PROP, "charge events returned after clear() were already returned before" if n_got > window_true[-1] else "charge events missing from get_events()",
                                         dict(ctx, returned=n_got, events_in_window=window_true[-1], windows_so_far=len(windows))))
                    break
        stats["steps"] += case["nsteps"]
        sh = [h for h in rp.e.reporter.handlers if isinstance(h, StatsHandler)][0]
        with quiet():
            summary = rp.e.reporter.get_summary_stats(rp)
            hive_cosim.close(rp)
        closed = True
        if out:
            return out, flags, dict(stats)
        # ---- the written log
        lines = []
        for ln, raw in enumerate((Path(world.dir) / "out" / "event.log").read_text().splitlines()):
            try:
                rec = json.loads(raw)
            except ValueError:
                out.append(Violation(PROP, "event.log line is not valid JSON", {"line": ln, "text": raw[:200]}))
                return out, flags, dict(stats)
            rt = rec.get("report_type")
            miss = [k_ for k_ in DOC_KEYS.get(rt, []) if k_ not in rec]
            if rt is None or miss:
                out.append(Violation(PROP, f"event.log record lacks documented keys ({rt})", {"line": ln, "missing": miss}))
                return out, flags, dict(stats)
            lines.append(rec)
        stats["log_lines"] += len(lines)
        cnt = collections.Counter(l["report_type"] for l in lines)
        reported = collections.Counter(t_.lower() for step in cap.steps for t_, _ in step if t_ != "INSTRUCTION")
        logged = set(w["log_types"]) if w.get("log_types") is not None else None  # None: everything (the shipped default)
        if logged is not None:
            flags.add("custom_log_sim_config")
        captured = collections.Counter({rt: n_ for rt, n_ in reported.items() if logged is None or rt in logged})
        for rt in set(cnt) | set(captured):
            if (rt != "station_load_event" or not (logged is None or rt in logged)) and cnt[rt] != captured[rt]:
                out.append(Violation(PROP, f"log holds {rt} records {'more' if cnt[rt] > captured[rt] else 'less'} often than they were reported", {"log": cnt[rt], "reported": captured[rt], "log_sim_config": sorted(logged) if logged is not None else "default"}))
        mv, chg = collections.defaultdict(float), collections.defaultdict(float)
        for l in lines:
            if l["report_type"] == "vehicle_move_event":
                mv[l["vehicle_id"]] += float(l["distance_km"])
            elif l["report_type"] == "vehicle_charge_event":
                chg[l["vehicle_id"]] += float(l["energy"])
        for v in rp.s.vehicles.values():
            if logged is not None and "vehicle_move_event" not in logged:
                mv[v.id] = v.distance_traveled_km  # not logged by the user's choice
            if logged is not None and "vehicle_charge_event" not in logged:
                chg[v.id] = sum(v.energy_gained.values())
            if abs(mv[v.id] - v.distance_traveled_km) > TOL:
                out.append(Violation(PROP, "sum of logged move distances != odometer", {"vehicle": v.id, "log": mv[v.id], "odometer": v.distance_traveled_km}))
            if abs(chg[v.id] - sum(v.energy_gained.values())) > TOL:
                out.append(Violation(PROP, "sum of logged charge energies != energy gained", {"vehicle": v.id, "log": chg[v.id], "gained": sum(v.energy_gained.values())}))
        # station load per flush block
        blocks: List[Tuple[Dict[str, float], Dict[str, float]]] = []
        prev_load = False
        load_selected = logged is None or "station_load_event" in logged
        for l in (lines if load_selected else ()):
            is_load = l["report_type"] == "station_load_event"
            if is_load and (not prev_load or l["station_id"] in blocks[-1][0]):
                blocks.append((collections.defaultdict(float), collections.defaultdict(float)))
            if not blocks:
                out.append(Violation(PROP, "log does not start with a station load block", {}))
                break
            if is_load:
                blocks[-1][0][l["station_id"]] += float(l["energy"])
            elif l["report_type"] == "vehicle_charge_event":
                blocks[-1][1][l["station_id"]] += float(l["energy"])
            prev_load = is_load
        if not load_selected:
            pass  # (a station load record in the log would already have been reported by the count comparison above)
        elif len(blocks) == case["nsteps"]:
            # the load of a step is the sum of the charge events *reported* in it, whether or not those are themselves logged
            for bi, (load, ce) in enumerate(blocks):
                ce.clear()
                for t_, e in cap.steps[bi]:
                    if t_ == "VEHICLE_CHARGE_EVENT":
                        ce[e["station_id"]] += float(e["energy"])
        if load_selected and len(blocks) != case["nsteps"] and rp.s.stations:
            out.append(Violation(PROP, "number of station-load blocks != number of steps", {"blocks": len(blocks), "steps": case["nsteps"]}))
        for bi, (load, ce) in enumerate(blocks):
            for sid in set(load) | set(ce):
                if abs(load.get(sid, 0.0) - ce.get(sid, 0.0)) > 1e-9:
                    out.append(Violation(PROP, "station load != sum of the step's charge events there", {"block": bi, "station": sid, "load": load.get(sid, 0.0), "charges": ce.get(sid, 0.0)}))
                    break
            if set(load) != set(rp.s.stations.keys()):
                out.append(Violation(PROP, "station load block does not list every station exactly once", {"block": bi}))
            if out:
                break
        cnt = collections.Counter({rt: (cnt[rt] if logged is None or rt in logged else reported[rt]) for rt in set(cnt) | set(reported)})
        if sh.stats.requests != cnt["add_request_event"] or sh.stats.cancelled_requests != cnt["cancel_request_event"]:
            out.append(Violation(PROP, "summary request/cancellation counts != add/cancel events", {"summary": [sh.stats.requests, sh.stats.cancelled_requests], "log": [cnt["add_request_event"], cnt["cancel_request_event"]]}))
        want_pct = (1 - cnt["cancel_request_event"] / cnt["add_request_event"]) if cnt["add_request_event"] else 0.0
        if summary is not None and abs(summary["requests_served_percent"] - want_pct) > 1e-12:
            out.append(Violation(PROP, "summary requests_served_percent disagrees with the log", {"summary": summary["requests_served_percent"], "log": want_pct}))
        if {"pickup", "dropoff", "cancel", "charge", "move", "two_charging_one_station"} <= flags:
            flags.add("all_event_types")
    finally:
        if not closed:
            try:
                with quiet():
                    world.rp.e.reporter.close(world.rp)
            except Exception:
                pass
        import shutil

        shutil.rmtree(world.dir, ignore_errors=True)
    return out, flags, dict(stats)


def nshards(tier):
    return 16


def shard(tier, seed, idx) -> ShardResult:
    res = ShardResult()
    comp.run(PROP, st_case(), check_case, lambda f: "all_event_types" in f, res, cases=60 if tier == "quick" else 800, seed=seed * 1000 + idx,
             kind="component", sample_fn=lambda c: {"world": world_summary(c["world"]), "nsteps": c["nsteps"], "window": c["window"], "det": c["det"]})
    return res


def replay(case):
    return comp.replay(PROP, check_case, case)


def minimise(failure):
    return failure["case"]
