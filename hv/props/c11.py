"""C11 Timed inputs take effect exactly once, at the right step (DESIGN §C11)."""
from __future__ import annotations

import collections
import datetime
from typing import Any, Dict, List, Optional, Set, Tuple

from hypothesis import strategies as st

from hv import comp
from hv.base import ShardResult, Violation, quiet
from hv.worlds import ALL_PLUGS, SITE_POOL, World

PROP = "C11"
RULE = ("generated file-based scenarios run through Update.apply_update (co-simulation crank, one step at a time): sorted request files with ISO and "
        "epoch stamps, bursts of identical stamps, gaps, rows before the start time and rows already expired on arrival, start time, step length "
        "1-1800 s, cancel timeout 1-3600 s, eager and lazy readers, 0-2 vehicles with the built-in dispatcher so that some requests are picked up; "
        "price tables keyed by station id or by region cell (one resolution per table: coarser than, equal to or finer than the search resolution), "
        "time-varying, naming only some stations / plug types, unknown stations and plugs that are not installed. Oracle = arithmetic reference "
        "model independent of the iterator code: step k begins at T_k = start + k*dt; request with departure d is admitted in k* = min{k: T_k > d} "
        "iff d + timeout > T_k*, exactly once; if not picked up it is cancelled in min{j: T_j >= d + timeout} and present in every step between; "
        "price(station, plug) after step k = value of the last row in file order with time < T_k whose key names the station (id equality or the "
        "station's cell lies in the named region) and whose plug is installed there, else unchanged (initially 0); any exception from the pipeline "
        "is a violation. non-trivial = request stream with a burst of >=3 equal stamps, a late-admitted and an expired-on-arrival row and a step "
        "length that does not divide the stamps, or a price table omitting a station and changing a price twice; distinct = sha1(case)")
ASSUMPTIONS = ["input files are sorted by time (the statement's quantifier)", "request departure_time >= 0 (the loader asserts it)",
               "one region resolution per price table; unknown station ids are not hexadecimal strings",
               "requests carry no fleet (no fleets file); pooling column left out", "PYTHONHASHSEED pinned to 0"]
FLOORS = {"quick": {"requests_modelled": 2000, "price_cells_checked": 25000, "flag:late_admitted": 30, "flag:expired_on_arrival": 70,
                    "flag:table_omits_station": 45, "flag:finer_than_search": 40}, "thorough": {"requests_modelled": 100000}}


FRACTIONS = st.sampled_from(["", "", ".5", ".900", ".499999", ".999", ".001"])


@st.composite
def st_case(draw) -> Dict[str, Any]:
    start = draw(st.sampled_from([0, 0, 100, 3600 * 5 + 7, 86400 - 300]))
    dt = draw(st.sampled_from([1, 7, 30, 45, 60, 60, 90, 601, 1800]))
    timeout = draw(st.sampled_from([1, 30, 60, 200, 600, 1000, 3600]))
    nsteps = draw(st.integers(5, 60))
    res = draw(st.sampled_from([6, 7, 7, 8, 9]))
    nsites = draw(st.integers(3, 7))
    sites = draw(st.lists(st.integers(0, len(SITE_POOL) - 1), min_size=nsites, max_size=nsites))
    site = st.integers(0, nsites - 1)
    stations = []
    for i in range(draw(st.integers(1, 4))):
        ptypes = draw(st.lists(st.sampled_from(ALL_PLUGS), unique=True, min_size=1, max_size=3))
        stations.append({"id": f"s{i + 1}", "site": draw(site), "plugs": [[c, 1, True] for c in ptypes], "fleets": []})
    vehicles = [{"id": f"v{i}", "site": draw(site), "mech": "leaf_50", "soc": 0.9, "schedule": None, "home_base": None, "fleets": []}
                for i in range(draw(st.sampled_from([0, 0, 1, 2])))]
    # requests
    t = max(0, start - draw(st.sampled_from([0, 0, timeout // 2, timeout + 3, 3 * timeout])))
    reqs = []
    for j in range(draw(st.integers(0, 25))):
        t += draw(st.sampled_from([0, 0, 0, 1, max(dt - 1, 0), dt, dt + 1, 2 * dt + 3, draw(st.integers(0, 3 * dt))]))
        iso = draw(st.booleans())
        # ISO stamps may carry a sub-second part (what pandas writes for datetime columns). The clock counts whole seconds: a
        # stamp names the second it falls in. For admission and prices that is the same as comparing the exact stamp with the
        # (whole-second) step starts; for expiry the two readings differ only when second + timeout is itself a step start,
        # and those rows keep whole-second stamps (counted nowhere: excluded by construction).
        frac = draw(FRACTIONS) if iso and (t + timeout - start) % dt != 0 else ""
        reqs.append({"id": f"r{j}", "o": draw(site), "d": draw(site), "t": t, "pax": 1, "fleet": None,
                     "t_text": (datetime.datetime.utcfromtimestamp(t).strftime("%Y-%m-%dT%H:%M:%S") + frac) if iso else str(t)})
    # prices
    prices = None
    price_key = "station_id"
    key_res = None
    price_text: Dict[str, str] = {}
    if draw(st.sampled_from([True, True, True, False])):
        price_key = draw(st.sampled_from(["station_id", "geoid", "geoid"]))
        if price_key == "geoid":
            key_res = draw(st.sampled_from([res - 2, res - 1, res, res, res + 1, res + 2, 12]))
        keys = st.integers(0, 5)  # index: stations 0..3 (mod), 4-5: unknown station / empty region
        tp = max(0, start - draw(st.sampled_from([0, 0, 5, 2 * dt])))
        prices = []
        price_iso = draw(st.sampled_from([False, False, True]))
        for i in range(draw(st.integers(1, 14))):
            tp += draw(st.sampled_from([0, 0, 1, dt - 1, dt, dt + 1, 3 * dt]))
            prices.append([tp, draw(keys), draw(st.sampled_from(ALL_PLUGS + ["NOPE"])), draw(st.sampled_from([0.0, 0.05, 0.3, 0.6, 2.5, -0.1]))])
            if price_iso:
                price_text[str(i)] = datetime.datetime.utcfromtimestamp(tp).strftime("%Y-%m-%dT%H:%M:%S") + draw(FRACTIONS)
    return {"price_time_text": price_text or None, "start": start, "dt": dt, "timeout": timeout, "nsteps": nsteps, "res": res, "sites": sites, "stations": stations, "vehicles": vehicles,
            "requests": reqs, "prices": prices, "price_key": price_key, "key_res": key_res, "lazy": draw(st.booleans()), "builtin": draw(st.booleans())}


def _world(case) -> Dict[str, Any]:
    import h3

    prices = None
    if case["prices"] is not None:
        prices = []
        for tp, ki, plug, p in case["prices"]:
            if ki < 4:
                s = case["stations"][ki % len(case["stations"])]
                if case["price_key"] == "station_id":
                    key = s["id"]
                else:
                    g = h3.geo_to_h3(*SITE_POOL[case["sites"][s["site"]]], 15)
                    key = g if case["key_res"] >= 15 else h3.h3_to_parent(g, case["key_res"])
            else:
                key = ["sX", "station_9"][ki - 4] if case["price_key"] == "station_id" else h3.geo_to_h3(40.5 + ki, -100.0, min(case["key_res"], 15))
            prices.append([tp, key, plug, p])
    return {
        "net": "hav", "graph": None, "sites": case["sites"],
        "sim": {"start_time": case["start"], "timestep_duration_seconds": case["dt"], "request_cancel_time_seconds": case["timeout"],
                "sim_h3_search_resolution": case["res"], "end_time": case["start"] + case["dt"] * (case["nsteps"] + 5)},
        "dispatcher": {"max_search_radius_km": 5.0}, "fleet_ids": [], "vehicles": case["vehicles"], "stations": case["stations"],
        "bases": [{"id": "b1", "site": 0, "stalls": 2, "station": None, "fleets": []}], "requests": case["requests"], "schedules": [],
        "prices": prices, "price_key": case["price_key"], "rate": None, "lazy": case["lazy"], "price_time_text": case.get("price_time_text"),
    }


def check_case(case: Dict[str, Any]) -> Tuple[List[Violation], Set[str], Dict[str, int]]:
    import h3
    from nrel.hive.app import hive_cosim
    from hv.history import _mk_capture, _mk_scripted

    out: List[Violation] = []
    flags: Set[str] = set()
    stats = collections.Counter()
    w = _world(case)
    start, dt, timeout, nsteps = case["start"], case["dt"], case["timeout"], case["nsteps"]
    T = [start + k * dt for k in range(nsteps + 1)]
    try:
        world = World(w, gens=None if case["builtin"] else (_mk_scripted()("g0"),))
    except Exception as e:  # the loader itself refused or crashed on a documented input
        return [Violation(PROP, f"loading a sorted timed input failed: {type(e).__name__}", {"message": str(e)[:300]})], flags, dict(stats)
    try:
        rp = world.rp
        cap = _mk_capture()()
        rp.e.reporter.add_handler(cap)
        adds, cancels, pickups = collections.defaultdict(list), collections.defaultdict(list), {}
        present: List[Set[str]] = []
        prices_seen: List[Dict[Tuple[str, str], float]] = []
        for k in range(nsteps):
            try:
                with quiet():
                    rp = hive_cosim.crank(rp, 1).runner_payload
            except Exception as e:
                import traceback

                fr = [f for f in traceback.extract_tb(e.__traceback__) if "/nrel/hive/" in f.filename]
                where = fr[-1].filename.split("/nrel/hive/")[-1] + ":" + fr[-1].name if fr else "?"
                out.append(Violation(PROP, f"the run stopped with {type(e).__name__} in {where}", {"step": k, "message": str(e)[:200]}))
                return out, flags, dict(stats)
            if int(rp.s.sim_time) != T[k + 1]:
                out.append(Violation(PROP, "clock is not start + k*dt", {"step": k}))
            for t_, e in cap.steps[-1]:
                if t_ == "ADD_REQUEST_EVENT":
                    adds[e["request_id"]].append(k)
                elif t_ == "CANCEL_REQUEST_EVENT":
                    cancels[e["request_id"]].append(k)
                elif t_ == "PICKUP_REQUEST_EVENT":
                    pickups.setdefault(e["request_id"], k)
            present.append(set(rp.s.requests.keys()))
            prices_seen.append({(s.id, c): float(cs.price_per_kwh) for s in rp.s.stations.values() for c, cs in s.state.items()})
        # ---------------- request model
        stamps = collections.Counter(r["t"] for r in case["requests"])
        if stamps and max(stamps.values()) >= 3:
            flags.add("burst_of_three")
        for r in case["requests"]:
            d = r["t"]
            stats["requests_modelled"] += 1
            kstar = next((k for k in range(nsteps) if T[k] > d), None)
            exp_add: List[int] = []
            exp_cancel: List[int] = []
            if kstar is not None:
                if d + timeout > T[kstar]:
                    exp_add = [kstar]
                    if d < start:
                        flags.add("late_admitted")
                    j = next((j for j in range(kstar, nsteps) if T[j] >= d + timeout), None)
                    if j is not None:
                        exp_cancel = [j]
                else:
                    flags.add("expired_on_arrival")
                if d % dt != start % dt:
                    flags.add("stamp_off_grid")
            pk = pickups.get(r["id"])
            if pk is not None:
                flags.add("picked_up")
                if exp_cancel and pk <= exp_cancel[0]:
                    exp_cancel = []
            got_add, got_cancel = adds.get(r["id"], []), cancels.get(r["id"], [])
            ctx = {"request": r["id"], "departure": d, "start": start, "dt": dt, "timeout": timeout, "lazy": case["lazy"]}
            if got_add != exp_add:
                what = ("admitted twice" if len(got_add) > 1 else "never admitted" if not got_add else "admitted although already expired" if not exp_add
                        else "admitted too early" if got_add[0] < exp_add[0] else "admitted too late")
                out.append(Violation(PROP, f"request {what}", dict(ctx, admitted_in_steps=got_add, model=exp_add)))
            elif got_cancel != exp_cancel:
                what = ("cancelled twice" if len(got_cancel) > 1 else "never cancelled" if not got_cancel else "cancelled although picked up or out of horizon" if not exp_cancel
                        else "cancelled too early" if got_cancel[0] < exp_cancel[0] else "cancelled too late")
                out.append(Violation(PROP, f"request {what}", dict(ctx, cancelled_in_steps=got_cancel, model=exp_cancel, picked_up_in=pk)))
            elif exp_add:
                last = exp_cancel[0] if exp_cancel else (pk if pk is not None else nsteps)
                missing = [k for k in range(exp_add[0], min(last, nsteps)) if r["id"] not in present[k]]
                if missing and pk is None:
                    out.append(Violation(PROP, "request absent between admission and cancellation", dict(ctx, steps=missing[:5])))
            if out:
                return out, flags, dict(stats)
        # ---------------- price model
        if case["prices"] is not None:
            rows = w["prices"]
            st_cells = {s["id"]: h3.geo_to_h3(*SITE_POOL[case["sites"][s["site"]]], 15) for s in case["stations"]}
            installed = {s["id"]: {c for c, _, _ in s["plugs"]} for s in case["stations"]}
            if case["price_key"] == "geoid":
                if case["key_res"] > case["res"]:
                    flags.add("finer_than_search")
                elif case["key_res"] < case["res"]:
                    flags.add("coarser_than_search")

            def names(key, sid) -> bool:
                if case["price_key"] == "station_id":
                    return key == sid
                r_ = h3.h3_get_resolution(key)
                g = st_cells[sid]
                return (g if r_ >= 15 else h3.h3_to_parent(g, r_)) == key

            named = {sid: any(names(k_, sid) for _, k_, _, _ in rows) for sid in st_cells}
            if not all(named.values()):
                flags.add("table_omits_station")
            changes = collections.Counter()
            for k in range(nsteps):
                for sid in st_cells:
                    for plug in installed[sid]:
                        val = 0.0
                        for tp, key, c, p in rows:
                            if tp < T[k] and c == plug and names(key, sid):
                                val = float(p)
                        got = prices_seen[k].get((sid, plug))
                        stats["price_cells_checked"] += 1
                        if k and prices_seen[k - 1].get((sid, plug)) != got:
                            changes[(sid, plug)] += 1
                        if got is None or abs(got - val) > 1e-12:
                            rel = ("finer than" if case["key_res"] and case["key_res"] > case["res"] else "coarser than or equal to") if case["price_key"] == "geoid" else "n/a"
                            out.append(Violation(PROP, f"price differs from the table (keys by {case['price_key']}, region {rel} the search resolution)",
                                                 {"step": k, "T_k": T[k], "station": sid, "plug": plug, "got": got, "model": val, "rows": rows[:14]}))
                            return out, flags, dict(stats)
            if changes and max(changes.values()) >= 2:
                flags.add("price_changed_twice")
    finally:
        world.close()
    return out, flags, dict(stats)


def _nontrivial(f: Set[str]) -> bool:
    return ({"burst_of_three", "late_admitted", "expired_on_arrival", "stamp_off_grid"} <= f) or ({"table_omits_station", "price_changed_twice"} <= f)


def nshards(tier):
    return 16


def shard(tier, seed, idx) -> ShardResult:
    res = ShardResult()
    comp.run(PROP, st_case(), check_case, _nontrivial, res, cases=400 if tier == "quick" else 10000, seed=seed * 1000 + idx, kind="component")
    return res


def replay(case):
    return comp.replay(PROP, check_case, case)


def minimise(failure):
    return failure["case"]
