"""C17 A request's assigned vehicle is really on its way to it (DESIGN §C17)."""
from hv import hprop
from hv.monitors import C17Assignment
from hv.worlds import profile

hprop.install(globals(), hprop.HistoryProperty(
    prop="C17",
    monitors=lambda: [C17Assignment()],
    profile=profile(nv=(2, 6), n_requests=(8, 40), timeouts=[300, 600, 600], socs=[0.0005, 0.002, 0.004, 0.01, 0.05, 0.3, 0.5, 0.9, 0.9],
                    builtin=[False, True, True], mechs=["leaf_50", "tiny_bev", "tiny_bev", "toyota_corolla", "tiny_ice", "tiny_ice"],
                    n_scripted=[0, 1, 1, 2, 3], fleets=[0, 1, 2, 2, 3], human_share=[False, True]),
    nontrivial=lambda f: "dispatched_vehicle_redirected" in f and bool(f & {"ran_empty_while_dispatched", "request_redispatched"}),
    rule=("stateful histories over generated worlds with near-empty vehicles, re-dispatch, interruption by every instruction type, "
          "double dispatch, cancellations and requests injected co-simulation style through simulation_state_ops (also at simulation time 0, before the first step); built-in dispatcher alone in a third of the cases; after every step and single-instruction "
          "probe every waiting request that records a vehicle is checked against that vehicle's activity, and no request that only the built-in dispatcher ever "
          "dispatched (no scripted controller named it, no client re-offered it) has two vehicles travelling to it - judged on the state after the step and on the dispatcher's recorded input and output, also while a clumsy controller sends refusable instructions to vehicles under way (meddle rule). non-trivial = a dispatched vehicle "
          "was redirected AND (a vehicle ran empty while dispatched OR a re-offered request was dispatched again); distinct = sha1(world, op log)"),
    assumptions=hprop.COMMON_ASSUMPTIONS,
    quick=(16, 140, 40), thorough=(16, 1200, 60), probes=True,
    instr_bias={"inject": True, "meddle": True, "raw": True, "raw_kinds": [2, 2, 2, 0, 5, 3], "raw_tclasses": [0, 0, 2, 7, 7, 5], "kinds": [1, 1, 1, 1, 1, 1, 0, 0, 2, 5, 6, 7, 8, 3, 4], "vclasses": [0, 1, 1, 9, 9, 9, 8, 2], "tclasses": [0, 0, 2, 7, 7, 5, 6]},
))
FLOORS = {"quick": {"flag:dispatched_vehicle_redirected": 30, "flag:ran_empty_while_dispatched": 5}, "thorough": {"flag:ran_empty_while_dispatched": 50}}
