"""C20 Human drivers follow their shift schedule (DESIGN §C20)."""
from __future__ import annotations

import collections
import datetime
from typing import Any, Dict, List, Set, Tuple

from hypothesis import strategies as st

from hv import comp
from hv.base import ShardResult, Violation, quiet
from hv.worlds import SCHEDULE_IDS, SITE_POOL, World, _hms

PROP = "C20"
RULE = ("(a) component: time_in_range and the schedule functions built by time_range_schedules_from_file against the integer reference "
        "in_shift(s, e, x) = (s <= x < e) if s <= e else (x >= s or x < e) over generated (s, e, x) concentrated on boundaries (x in {s-1, s, s+1, e-1, e, e+1}, "
        "midnight, s = e); (b) whole runs of generated file-based scenarios with a generated schedules.csv (wrapping shifts, shifts touching step "
        "boundaries, empty shifts), 1-4 human drivers with home bases next to autonomous vehicles (ids sorting before, between and after theirs), start times anywhere in the day, step lengths "
        "60-3600 s incl. ones that do not divide the day, a quarter of the scenarios loaded a second time from the same path after every shift was displaced, 25-50 h, a request stream over the whole run, built-in dispatcher: after step k (beginning at "
        "T_k) driver.available == in_shift(T_k mod 86400); an on/off schedule event in step k iff availability differs from step k-1 (initially "
        "unavailable); a DispatchTripInstruction reported for a human-driven vehicle in step k implies in_shift(T_k); the Dispatcher (recording proxy) "
        "never emits an instruction for a vehicle whose driver is unavailable in the state it was handed. non-trivial (b) = run crossing midnight with "
        "a wrapping shift, >= 2 flips of one driver and >= 1 dispatch of a human driver; (a) = triple on a boundary; distinct = sha1(case)")
ASSUMPTIONS = ["schedule_type time_range (the only shipped type)", "human drivers have a home base (the loader requires it)", "PYTHONHASHSEED pinned to 0"]
FLOORS = {"quick": {"triples": 7000, "driver_steps": 20000, "flag:human_dispatched": 22, "flag:wrapping_shift": 20, "flips": 300}, "thorough": {"driver_steps": 500000}}


def in_shift(s: int, e: int, x: int) -> bool:
    return (s <= x < e) if s <= e else (x >= s or x < e)


# ----------------------------------------------------------------------------- (a) component

_sec = st.integers(0, 86399)


@st.composite
def st_triples(draw) -> Dict[str, Any]:
    out = []
    for _ in range(draw(st.integers(5, 40))):
        s = draw(st.one_of(_sec, st.sampled_from([0, 1, 86399, 43200, 3600])))
        e = draw(st.one_of(_sec, st.sampled_from([0, 1, 86399, 43200, 3600]), st.just(s), st.just((s + 1) % 86400), st.just((s - 1) % 86400)))
        xs = [(s - 1) % 86400, s, (s + 1) % 86400, (e - 1) % 86400, e, (e + 1) % 86400, 0, 86399, draw(_sec)]
        out.append([s, e, xs])
    return {"triples": out}


def check_triples(case: Dict[str, Any]) -> Tuple[List[Violation], Set[str], Dict[str, int]]:
    import os
    import tempfile
    from nrel.hive.model.vehicle.schedules.time_range_schedule import time_range_schedules_from_file
    from nrel.hive.util.time_helpers import time_in_range
    from hv.base import SCRATCH_ROOT

    out: List[Violation] = []
    stats = collections.Counter()

    def tm(x):
        return datetime.time(x // 3600, x % 3600 // 60, x % 60)

    fd, path = tempfile.mkstemp(suffix=".csv", dir=str(SCRATCH_ROOT))
    try:
        with os.fdopen(fd, "w") as f:
            f.write("schedule_id,start_time,end_time\n" + "".join(f'k{i},"{_hms(s)}","{_hms(e)}"\n' for i, (s, e, _) in enumerate(case["triples"])))
        table = time_range_schedules_from_file(path)
    finally:
        os.unlink(path)

    class FakeSim:
        def __init__(self, t):
            self.sim_time = t

    for i, (s, e, xs) in enumerate(case["triples"]):
        for x in xs:
            stats["triples"] += 1
            want = in_shift(s, e, x)
            if bool(time_in_range(tm(s), tm(e), tm(x))) != want:
                out.append(Violation(PROP, "time_in_range disagrees with [start, end) " + ("(wrapping shift)" if s > e else "(plain shift)"), {"start": s, "end": e, "x": x, "expected": want}))
            for day in (0, 3):
                if bool(table[f"k{i}"](FakeSim(x + 86400 * day), "v")) != want:
                    out.append(Violation(PROP, "schedule function disagrees with [start, end) " + ("(wrapping shift)" if s > e else "(plain shift)"), {"start": s, "end": e, "x": x, "day": day, "expected": want}))
            if out:
                return out, {"boundary"}, dict(stats)
    return out, {"boundary"}, dict(stats)


# ----------------------------------------------------------------------------- (b) whole runs


@st.composite
def st_run(draw) -> Dict[str, Any]:
    dt = draw(st.sampled_from([300, 420, 600, 900, 1777, 1800, 3600, 3600, 60]))
    start = draw(st.sampled_from([0, 3 * 3600 + 17, 12 * 3600, 23 * 3600 + 1800, draw(st.integers(0, 86399))]))
    hours = draw(st.integers(25, 50)) if dt > 60 else 6
    nsteps = min(600, hours * 3600 // dt)
    nsites = draw(st.integers(3, 6))
    sites = draw(st.lists(st.integers(0, len(SITE_POOL) - 1), min_size=nsites, max_size=nsites))
    site = st.integers(0, nsites - 1)
    nh = draw(st.integers(1, 4))
    schedules = []
    for i in range(nh):
        s = draw(st.one_of(st.integers(0, 86399), st.integers(64800, 86399), st.sampled_from([(start + k * dt) % 86400 for k in (0, 1, 5, 30)])))
        length = draw(st.sampled_from([dt, 2 * dt, 7 * dt - 1, 3600 * 4, 3600 * 9, 3600 * 20, 0, 60]))
        e = (s + length) % 86400
        schedules.append([SCHEDULE_IDS[i], _hms(s), _hms(e), s - s % 1, e])
    bases = [{"id": f"b{i + 1}", "site": draw(site), "stalls": 2, "station": (f"bs{i + 1}" if draw(st.booleans()) else None), "fleets": []} for i in range(draw(st.integers(1, 2)))]
    stations = [{"id": "s1", "site": draw(site), "plugs": [["DCFC", 2, True]], "fleets": []}]
    for b in bases:
        if b["station"]:
            stations.append({"id": b["station"], "site": b["site"], "plugs": [["LEVEL_2", 2, False]], "fleets": []})
    vehicles = [{"id": f"h{i}", "site": draw(site), "mech": "leaf_50", "soc": draw(st.sampled_from([0.5, 0.9])), "schedule": SCHEDULE_IDS[i],
                 "home_base": draw(st.sampled_from([b["id"] for b in bases])), "fleets": []} for i in range(nh)]
    # autonomous vehicles whose ids sort before, between and after the human-driven ones (vehicles and drivers are stepped in id order)
    vehicles += [{"id": draw(st.sampled_from(["a{}", "h{}x", "z{}"])).format(i), "site": draw(site), "mech": "leaf_50", "soc": 0.9, "schedule": None, "home_base": None, "fleets": []} for i in range(draw(st.integers(0, 2)))]
    every = draw(st.sampled_from([dt // 2 + 1, dt, 2 * dt + 7, 900]))
    reqs = [{"id": f"r{j}", "o": draw(site), "d": draw(site), "t": start + j * every + 13, "pax": 1, "fleet": None} for j in range(min(400, nsteps * dt // every))]
    return {"dt": dt, "start": start, "nsteps": nsteps, "sites": sites, "schedules": schedules, "bases": bases, "stations": stations, "vehicles": vehicles, "requests": reqs,
            "idle_timeout": draw(st.sampled_from([1800, 600])),
            # a quarter of the runs load the scenario a second time from the same path after its shift table was edited (seconds of displacement)
            "reload": draw(st.sampled_from([0, 0, 0, 3600, 7 * 3600 + 30])),
            # which activities the dispatcher may take vehicles from is configuration (the shipped Manhattan scenario
            # includes vehicles charging at their base - where off-shift human drivers spend their time)
            "dispatch_states": draw(st.sampled_from([["idle", "repositioning", "reservebase", "dispatchbase"],
                                                     ["idle", "repositioning", "reservebase", "dispatchbase", "chargingbase", "chargingstation"],
                                                     ["idle", "repositioning"]]))}


def check_run(case: Dict[str, Any]) -> Tuple[List[Violation], Set[str], Dict[str, int]]:
    from nrel.hive.app import hive_cosim
    from hv.history import _mk_capture

    out: List[Violation] = []
    flags: Set[str] = set()
    stats = collections.Counter()
    dt, start, nsteps = case["dt"], case["start"], case["nsteps"]
    w = {"net": "hav", "graph": None, "sites": case["sites"],
         "sim": {"start_time": start, "timestep_duration_seconds": dt, "request_cancel_time_seconds": 900, "sim_h3_search_resolution": 7, "end_time": start + dt * (nsteps + 2)},
         "dispatcher": {"max_search_radius_km": 5.0, "idle_time_out_seconds": case["idle_timeout"], "valid_dispatch_states": case.get("dispatch_states", ["idle", "repositioning", "reservebase", "dispatchbase"])},
         "fleet_ids": [], "vehicles": case["vehicles"], "stations": case["stations"], "bases": case["bases"], "requests": case["requests"],
         "schedules": [s[:3] for s in case["schedules"]], "prices": None, "rate": [2.0, 1.0, 3.0], "lazy": False}
    shift = {}
    for s in case["schedules"]:
        a, b = (sum(int(p) * m for p, m in zip(x.split(":"), (3600, 60, 1))) for x in (s[1], s[2]))
        shift[s[0]] = (a, b)
        if a > b:
            flags.add("wrapping_shift")
    if case.get("reload"):
        # the scenario was loaded before, from the same path, with every shift displaced (the files were edited since)
        def _hms2(x):
            return "%02d:%02d:%02d" % (x // 3600, x % 3600 // 60, x % 60)

        w0 = dict(w, schedules=[[sid, _hms2((shift[sid][0] + case["reload"]) % 86400), _hms2((shift[sid][1] + case["reload"]) % 86400)] for sid, _, _ in w["schedules"]], requests=[])
        World(w0, gens=(), builtin_first=True, fixed_dir=True).close()
        flags.add("scenario_files_edited_and_reloaded")
    world = World(w, gens=(), builtin_first=True, fixed_dir=bool(case.get("reload")))
    try:
        rp = world.rp
        cap = _mk_capture()()
        rp.e.reporter.add_handler(cap)
        disp = next(g for g in rp.u.step_update.ordered_instruction_generators if g.name == "Dispatcher")
        humans = {v["id"]: shift[v["schedule"]] for v in case["vehicles"] if v["schedule"]}
        prev = {vid: False for vid in humans}
        nflips = collections.Counter()
        T = start
        for k in range(nsteps):
            with quiet():
                rp = hive_cosim.crank(rp, 1).runner_payload
            ev = cap.steps[-1]
            x = T % 86400
            if (T // 86400) != ((T + dt) // 86400):
                flags.add("crossed_midnight")
            for vid, (a, b) in humans.items():
                stats["driver_steps"] += 1
                want = in_shift(a, b, x)
                got = bool(rp.s.vehicles[vid].driver_state.available)
                ctx = {"vehicle": vid, "step": k, "T_k": T, "time_of_day": x, "shift": [a, b], "dt": dt}
                if got != want:
                    out.append(Violation(PROP, "driver available outside its shift" if got else "driver unavailable inside its shift", ctx))
                sched = [e["schedule_event"] for t_, e in ev if t_ == "DRIVER_SCHEDULE_EVENT" and e["vehicle_id"] == vid]
                exp = [] if want == prev[vid] else (["on"] if want else ["off"])
                if sched != exp:
                    what = "missing" if not sched else "repeated or spurious" if len(sched) > len(exp) else "wrong"
                    out.append(Violation(PROP, f"shift event {what}", dict(ctx, events=sched, expected=exp)))
                nflips[vid] += len(exp)
                stats["flips"] += len(exp)
                prev[vid] = want
                for t_, e in ev:
                    if t_ == "INSTRUCTION" and e["vehicle_id"] == vid and e["instruction_type"] == "DispatchTripInstruction":
                        flags.add("human_dispatched")
                        if not want:
                            out.append(Violation(PROP, "off-shift driver was dispatched to a request", ctx))
            seen = disp.seen
            for i in disp.emitted:
                v = seen.vehicles.get(i.vehicle_id)
                if v is not None and not v.driver_state.available:
                    out.append(Violation(PROP, "dispatcher assigned a request to an unavailable driver", {"vehicle": i.vehicle_id, "step": k}))
            if out:
                break
            T += dt
        if nflips and max(nflips.values()) >= 2:
            flags.add("two_flips")
    finally:
        world.close()
    return out, flags, dict(stats)


def check_case(case):
    return check_triples(case) if "triples" in case else check_run(case)


def nshards(tier):
    return 16


def shard(tier, seed, idx) -> ShardResult:
    res = ShardResult()
    if idx < 3:
        comp.run(PROP, st_triples(), check_triples, lambda f: True, res, cases=120 if tier == "quick" else 5000, seed=seed * 1000 + idx, kind="component",
                 sample_fn=lambda c: {"triples": c["triples"][:3]})
    else:
        comp.run(PROP, st_run(), check_run, lambda f: {"crossed_midnight", "wrapping_shift", "two_flips", "human_dispatched"} <= f, res,
                 cases=40 if tier == "quick" else 600, seed=seed * 1000 + idx, kind="run",
                 sample_fn=lambda c: {k: c[k] for k in ("dt", "start", "nsteps", "schedules")} | {"vehicles": [(v["id"], v["schedule"], v["home_base"]) for v in c["vehicles"]], "n_requests": len(c["requests"])})
    return res


def replay(case):
    return comp.replay(PROP, check_case, case)


def minimise(failure):
    return failure["case"]
