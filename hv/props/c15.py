"""C15 The clock advances uniformly and stepping composes (DESIGN §C15)."""
from __future__ import annotations

import collections
from typing import Any, Dict, List, Set, Tuple

from hypothesis import strategies as st

from hv import comp
from hv.base import ShardResult, Violation, quiet
from hv.canon import canon, canon_report, first_diff
from hv.worlds import World, profile, st_world, world_summary

PROP = "C15"
RULE = ("generated file-based scenarios (requests, time-varying prices, human and autonomous vehicles, petrol and electric, built-in generators plus a "
        "deterministic state-only scripted controller and a stateful one that returns an updated copy of itself every step, eager and lazy readers, all network kinds) and a random composition n = a1+...+am; the "
        "scenario is loaded fresh three times in one process (a third of the scenarios through hive_cosim.load_scenario itself, with a controller that draws from the global random module): (A) crank(a1)...crank(am), optionally re-injecting the built-in generators between "
        "calls through runner_payload_ops, (B) crank(n), (C) LocalSimulationRunner.run with end = start + n*dt; a handler snapshots the state at every "
        "flush; per step k the canonical state (instance ids stripped, set-valued fields sorted) and the multiset of events must be equal across "
        "A/B/C and sim_time == start + k*dt. Separately, with an arbitrary end time, the step() loop must execute exactly the steps beginning in "
        "[start, end), then return None for ever, and run() must execute the same number. non-trivial = split with m >= 3 and a request admission, "
        "price change or charging step straddling a split point; distinct = sha1(case)")
ASSUMPTIONS = ["the three runs are separate fresh loads in one process with PYTHONHASHSEED pinned to 0 (cross-process / hash-seed reproducibility is C01)",
               "instance ids (uuid4 tags) are stripped before comparison"]
FLOORS = {"quick": {"steps_compared": 1000, "flag:m_ge_3": 25, "flag:event_straddles_split": 25, "runner_range_checks": 50}, "thorough": {"steps_compared": 50000}}

PROFILE = profile(nv=(1, 5), n_requests=(5, 40), builtin=[True], n_scripted=[1], socs=[0.05, 0.12, 0.3, 0.8, 0.97], prices_always=True)


@st.composite
def st_case(draw) -> Dict[str, Any]:
    w = draw(st_world(PROFILE))
    parts = draw(st.lists(st.integers(1, 30), min_size=1, max_size=6) | st.lists(st.integers(1, 12), min_size=3, max_size=6))
    return {"world": w, "parts": parts, "reinject": draw(st.sampled_from([False, True, "all"])), "via_cosim": draw(st.sampled_from([False, False, True])), "det": draw(st.sampled_from([True, True, False])), "stateful": draw(st.booleans()),
            "end_offset": draw(st.integers(0, 3 * w["sim"]["timestep_duration_seconds"])), "range_steps": draw(st.integers(0, 12))}


def _det_controller():
    from nrel.hive.dispatcher.instruction import instructions as I
    from nrel.hive.dispatcher.instruction_generator.instruction_generator import InstructionGenerator

    class DetController(InstructionGenerator):
        """deterministic and stateless: its output is a function of the state it is handed"""

        def generate_instructions(self, sim, env):
            k = int(sim.sim_time) // int(sim.sim_timestep_duration_seconds)
            vs = sorted(sim.vehicles.keys())
            ss = sorted(sim.stations.keys())
            bs = sorted(sim.bases.keys())
            out = []
            if vs:
                v = sim.vehicles[vs[k % len(vs)]]
                n = type(v.vehicle_state).__name__
                if k % 5 == 0 and n == "Idle" and ss:
                    s = sim.stations[ss[k % len(ss)]]
                    mech = env.mechatronics.get(v.mechatronics_id)
                    plugs = [c for c in sorted(s.state.keys()) if mech is not None and mech.valid_charger(s.state[c].charger)]
                    if plugs:  # only plugs the vehicle can use (see the shortest_time_to_charge exclusion in DESIGN)
                        out.append(I.DispatchStationInstruction(v.id, s.id, plugs[0]))
                elif k % 7 == 3 and n in ("ChargingStation", "ChargeQueueing", "ReserveBase"):
                    out.append(I.IdleInstruction(v.id))
                elif k % 11 == 4 and n == "Idle" and bs:
                    out.append(I.DispatchBaseInstruction(v.id, bs[k % len(bs)]))
            return self, tuple(out)

    return DetController()


def _random_controller():
    import random

    from nrel.hive.dispatcher.instruction import instructions as I
    from nrel.hive.dispatcher.instruction_generator.instruction_generator import InstructionGenerator

    class RandomController(InstructionGenerator):
        """stateless, but draws from the process-wide `random` module on every call"""

        def generate_instructions(self, sim, env):
            vs = sorted(sim.vehicles.keys())
            bs = sorted(sim.bases.keys())
            out = []
            if vs and bs and random.random() < 0.4:
                v = sim.vehicles[vs[random.randrange(len(vs))]]
                n = type(v.vehicle_state).__name__
                if n == "Idle":
                    out.append(I.DispatchBaseInstruction(v.id, bs[random.randrange(len(bs))]))
                elif n in ("ReserveBase", "DispatchBase"):
                    out.append(I.IdleInstruction(v.id))
            return self, tuple(out)

    return RandomController()


def _stateful_controller():
    """a user-style generator that evolves: every call returns an *updated copy* of itself (a round-robin pointer), so the runs only
    agree if every step is applied with the Update produced by the previous step"""
    from dataclasses import dataclass, replace

    from nrel.hive.dispatcher.instruction import instructions as I
    from nrel.hive.dispatcher.instruction_generator.instruction_generator import InstructionGenerator

    @dataclass(frozen=True)
    class RoundRobin(InstructionGenerator):
        pointer: int = 0

        def generate_instructions(self, sim, env):
            vs = sorted(sim.vehicles.keys())
            bs = sorted(sim.bases.keys())
            out = []
            if vs and self.pointer % 3 == 0:
                v = sim.vehicles[vs[(self.pointer // 3) % len(vs)]]
                n = type(v.vehicle_state).__name__
                if n == "Idle" and bs:
                    out.append(I.DispatchBaseInstruction(v.id, bs[self.pointer % len(bs)]))
                elif n in ("ReserveBase", "ChargingStation", "ChargeQueueing", "DispatchBase"):
                    out.append(I.IdleInstruction(v.id))
            return replace(self, pointer=self.pointer + 1), tuple(out)

    return RoundRobin()


def _snap_handler():
    from nrel.hive.reporting.handler.handler import Handler

    class Snap(Handler):
        def __init__(self):
            self.frames = []

        def handle(self, reports, rp):
            ev = sorted(repr(canon_report(r.report_type.name, dict(r.report))) for r in reports)
            self.frames.append((int(rp.s.sim_time), canon(rp.s), ev, collections.Counter(r.report_type.name for r in reports)))

        def close(self, rp):
            pass

    return Snap()


def _load(case, end_steps):
    from nrel.hive.dispatcher.instruction_generator.charging_fleet_manager import ChargingFleetManager
    from nrel.hive.dispatcher.instruction_generator.dispatcher import Dispatcher

    w = dict(case["world"])
    sim = dict(w["sim"])
    sim["end_time"] = sim["start_time"] + end_steps * sim["timestep_duration_seconds"]
    w["sim"] = sim
    world = World(w, gens=None, via_cosim=bool(case.get("via_cosim")))
    if case.get("via_cosim"):
        # a user-style controller that draws from the global random module (as examples/cosim_custom_dispatcher.py does):
        # every fresh load through hive_cosim.load_scenario starts it from the same seeded stream
        from nrel.hive.runner import runner_payload_ops as rpo

        cfg = world.rp.e.config.dispatcher
        world.rp = rpo.set_instruction_generators(world.rp, (Dispatcher(cfg), ChargingFleetManager(cfg), _random_controller()))
    elif case["det"]:
        from nrel.hive.runner import runner_payload_ops as rpo

        cfg = world.rp.e.config.dispatcher
        gens = (Dispatcher(cfg), ChargingFleetManager(cfg), _det_controller())
        if case.get("stateful", True):
            gens = gens + (_stateful_controller(),)
        world.rp = rpo.set_instruction_generators(world.rp, gens)
    snap = _snap_handler()
    world.rp.e.reporter.add_handler(snap)
    return world, snap


def check_case(case: Dict[str, Any]) -> Tuple[List[Violation], Set[str], Dict[str, int]]:
    from nrel.hive.app import hive_cosim
    from nrel.hive.dispatcher.instruction_generator.dispatcher import Dispatcher
    from nrel.hive.runner import runner_payload_ops as rpo
    from nrel.hive.runner.local_simulation_runner import LocalSimulationRunner

    out: List[Violation] = []
    flags: Set[str] = set()
    stats = collections.Counter()
    parts = case["parts"]
    n = sum(parts)
    dt = case["world"]["sim"]["timestep_duration_seconds"]
    start = case["world"]["sim"]["start_time"]
    runs = {}
    for mode in ("split", "whole", "runner"):
        world, snap = _load(case, n)
        try:
            rp = world.rp
            with quiet():
                if mode == "split":
                    for a in parts:
                        rp = hive_cosim.crank(rp, a).runner_payload
                        if case["reinject"] == "all":
                            # a client that owns the controllers hands the whole set back, in the same order
                            rp = rpo.set_instruction_generators(rp, tuple(rp.u.step_update.ordered_instruction_generators))
                        elif case["reinject"]:
                            d = rpo.get_instruction_generator(rp, Dispatcher)
                            rp = rpo.update_instruction_generator(rp, d)
                elif mode == "whole":
                    rp = hive_cosim.crank(rp, n).runner_payload
                else:
                    rp = LocalSimulationRunner.run(rp)
            runs[mode] = snap.frames
        finally:
            world.close()
    A, B, C = runs["split"], runs["whole"], runs["runner"]
    if not (len(A) == len(B) == len(C) == n):
        out.append(Violation(PROP, "number of executed steps differs between split / whole / batch runner", {"split": len(A), "whole": len(B), "runner": len(C), "n": n}))
        return out, flags, dict(stats)
    cuts = set()
    acc = 0
    for a in parts[:-1]:
        acc += a
        cuts.add(acc)
    if len(parts) >= 3:
        flags.add("m_ge_3")
    for k in range(n):
        stats["steps_compared"] += 1
        for nm, X in (("split", A), ("whole", B), ("runner", C)):
            if X[k][0] != start + (k + 1) * dt:
                out.append(Violation(PROP, f"clock after step {k} is not start + (k+1)*dt ({nm})", {"got": X[k][0], "expected": start + (k + 1) * dt}))
        for nm, X in (("whole", B), ("runner", C)):
            if A[k][1] != X[k][1]:
                out.append(Violation(PROP, f"state after a step differs: split calls vs {nm}", {"step": k, "first_difference": first_diff(A[k][1], X[k][1]), "parts": parts}))
            elif A[k][2] != X[k][2]:
                out.append(Violation(PROP, f"events of a step differ: split calls vs {nm}", {"step": k, "split": dict(A[k][3]), nm: dict(X[k][3]), "parts": parts}))
        if out:
            return out, flags, dict(stats)
        if k in cuts or (k + 1) in cuts:
            c = A[k][3]
            if c.get("ADD_REQUEST_EVENT") or c.get("VEHICLE_CHARGE_EVENT") or c.get("CANCEL_REQUEST_EVENT"):
                flags.add("event_straddles_split")
    # ---- runner range with an arbitrary (non-multiple) end time
    world, snap = _load(case, 0)
    try:
        end = start + case["range_steps"] * dt + (case["end_offset"] if case["range_steps"] else 0)
        cfg = world.rp.e.config
        env = world.rp.e._replace(config=cfg._replace(sim=cfg.sim._replace(end_time=type(cfg.sim.end_time)(end))))
        rp = world.rp._replace(e=env)
        expected = len([k for k in range(0, 10000) if start + k * dt < end])
        count = 0
        with quiet():
            cur = rp
            while count < expected + 5:
                nxt = LocalSimulationRunner.step(cur)
                if nxt is None:
                    break
                cur = nxt
                count += 1
            again = [LocalSimulationRunner.step(cur) for _ in range(2)]
        stats["runner_range_checks"] += 1
        if count != expected:
            out.append(Violation(PROP, "step() loop did not execute exactly the steps beginning in [start, end)", {"executed": count, "expected": expected, "start": start, "end": end, "dt": dt}))
        elif any(a is not None for a in again):
            out.append(Violation(PROP, "step() stepped beyond the end time", {"start": start, "end": end, "dt": dt}))
        elif int(cur.s.sim_time) != start + expected * dt:
            out.append(Violation(PROP, "clock after the step() loop is not start + steps*dt", {"got": int(cur.s.sim_time)}))
    finally:
        world.close()
    if not out:
        world, snap = _load(case, 0)
        try:
            cfg = world.rp.e.config
            env = world.rp.e._replace(config=cfg._replace(sim=cfg.sim._replace(end_time=type(cfg.sim.end_time)(end))))
            rp = world.rp._replace(e=env)
            with quiet():
                LocalSimulationRunner.run(rp)
            if len(snap.frames) != expected:
                out.append(Violation(PROP, "run() did not execute exactly the steps beginning in [start, end)", {"executed": len(snap.frames), "expected": expected, "start": start, "end": end, "dt": dt}))
        finally:
            world.close()
    return out, flags, dict(stats)


def nshards(tier):
    return 16


def shard(tier, seed, idx) -> ShardResult:
    res = ShardResult()
    comp.run(PROP, st_case(), check_case, lambda f: {"m_ge_3", "event_straddles_split"} <= f, res, cases=32 if tier == "quick" else 600, seed=seed * 1000 + idx,
             kind="component", sample_fn=lambda c: {"world": world_summary(c["world"]), "parts": c["parts"], "reinject": c["reinject"], "det": c["det"]})
    return res


def replay(case):
    return comp.replay(PROP, check_case, case)


def minimise(failure):
    return failure["case"]
