"""C12 The trip dispatcher returns a valid minimum-cost matching (DESIGN §C12)."""
from __future__ import annotations

import collections
from typing import Any, Dict, List, Optional, Set, Tuple

from hypothesis import strategies as st

from hv import comp
from hv.base import ShardResult, Violation
from hv.worlds import World, profile, st_world

PROP = "C12"
RULE = ("generated states: a generated file-based world (0-7 vehicles on a few sites within 3 km incl. co-located ones, petrol and electric, charge "
        "levels around the range thresholds, human drivers, 0-3 fleets (ids that may contain one another) with multi-fleet and no-fleet vehicles, generated valid_dispatch_states "
        "and thresholds) is loaded, then every vehicle is given an arbitrary activity class and every human driver an on/off-shift state, and 0-7 "
        "waiting requests (named q0.. or, in a third of the cases, like the vehicles) are added (co-located origins, exact distance ties, some already holding a dispatched vehicle, one fleet each when "
        "fleets exist); Dispatcher.generate_instructions is called once. Oracle, per fleet: vehicles distinct, requests distinct, every vehicle "
        "eligible by an independent re-statement of the rule (activity in configured set, driver available, range > matching threshold, not an "
        "under-charged base charger, member of the fleet), every request eligible (waiting, unassigned, of that fleet), #pairs = min(#eligible "
        "vehicles, #eligible requests), total grid distance = optimum of an exact subset DP written for the harness. (b) the same oracle on every run of the built-in "
        "Dispatcher inside generated whole histories (recording proxy: the state it was handed and what it returned). non-trivial (a) = a fleet group "
        "with n != m, both >= 2, >= 1 cost tie and >= 1 ineligible vehicle and request; (b) = history in which the dispatcher produced a pairing; "
        "distinct = sha1(case)")
ASSUMPTIONS = ["requests carry exactly one fleet iff fleets are configured (the loader drops the others)",
               "all sites lie within 3 km so the h3 grid distance is defined",
               "activities are assigned by class (the dispatcher reads the class name and, for base charging, the range), without entering them",
               "PYTHONHASHSEED pinned to 0"]
FLOORS = {"quick": {"groups": 800, "dispatcher_runs_in_histories": 800, "flag:rectangular": 50, "flag:cost_tie": 120, "flag:ineligible_vehicle": 150}, "thorough": {"groups": 30000}}

ACTS = ["Idle"] * 8 + ["Repositioning"] * 5 + ["ReserveBase", "ReserveBase", "ChargingBase", "DispatchBase", "DispatchStation", "ChargingStation",
        "ChargeQueueing", "DispatchTrip", "ServicingTrip", "OutOfService"]
PROFILE = profile(nv=(0, 7), humans_share=True, n_requests=(0, 0), nets=["hav"], socs=[0.001, 0.05, 0.12, 0.3, 0.31, 0.6, 0.9, 0.9, 1.0], builtin=[False], n_scripted=[1],
                  mechs=["leaf_50", "leaf_50", "tiny_bev", "toyota_corolla", "tiny_ice"], fleets=[0, 0, 1, 2, 3], stations=(1, 2), bases=(1, 2))


@st.composite
def st_case(draw) -> Dict[str, Any]:
    w = draw(st_world(PROFILE))
    nv = len(w["vehicles"])
    acts = [draw(st.sampled_from(ACTS)) for _ in range(nv)]
    avail = [draw(st.booleans()) for _ in range(nv)]
    nsites = len(w["sites"])
    reqs = []
    # vehicles and requests have separate id spaces: a third of the cases name the requests like the vehicles (v1, v2, v10 ...)
    from hv.worlds import VEHICLE_IDS

    like_vehicles = draw(st.sampled_from([False, False, True]))
    for j in range(draw(st.sampled_from([0, 1, 2, 3, 4, 5, 6, 7, 4, 5, 6, 7]))):
        reqs.append({"id": VEHICLE_IDS[j] if like_vehicles else f"q{j}", "o": draw(st.integers(0, nsites - 1)), "d": draw(st.integers(0, nsites - 1)),
                     "fleet": draw(st.sampled_from(w["fleet_ids"])) if w["fleet_ids"] else None,
                     "value": draw(st.sampled_from([1.0, 1.0, 5.0, 7.5])), "assigned": draw(st.sampled_from([False, False, False, False, True]))})
    return {"world": w, "acts": acts, "avail": avail, "reqs": reqs}


def optimum(cost: List[List[int]]) -> int:
    """min total cost of a matching of size min(n, m): exact DP over subsets of the *smaller* side, scanning the larger side
    (dp[mask] = cheapest way to have matched exactly the rows in mask using the columns seen so far)"""
    n, m = len(cost), (len(cost[0]) if cost else 0)
    if n == 0 or m == 0:
        return 0
    if n > m:
        cost = [list(r) for r in zip(*cost)]
        n, m = m, n
    INF = float("inf")
    dp = [INF] * (1 << n)
    dp[0] = 0
    for j in range(m):
        nxt = list(dp)  # column j left unmatched
        for mask in range(1 << n):
            base = dp[mask]
            if base == INF:
                continue
            for i in range(n):
                if not mask >> i & 1:
                    c = base + cost[i][j]
                    k = mask | 1 << i
                    if c < nxt[k]:
                        nxt[k] = c
        dp = nxt
    return dp[(1 << n) - 1]


def _set_activity(sim, v, act: str, base_id: str, station_id: str, rid: Optional[str], req):
    from nrel.hive.model.sim_time import SimTime
    from nrel.hive.state.simulation_state import simulation_state_ops as ops
    from nrel.hive.state.vehicle_state import (charge_queueing, charging_base, charging_station, dispatch_base, dispatch_station, dispatch_trip, idle,
                                               out_of_service, repositioning, reserve_base, servicing_trip)

    vid = v.id
    s = {
        "Idle": lambda: idle.Idle.build(vid),
        "Repositioning": lambda: repositioning.Repositioning.build(vid, ()),
        "ReserveBase": lambda: reserve_base.ReserveBase.build(vid, base_id),
        "ChargingBase": lambda: charging_base.ChargingBase.build(vid, base_id, "LEVEL_2"),
        "DispatchBase": lambda: dispatch_base.DispatchBase.build(vid, base_id, ()),
        "DispatchStation": lambda: dispatch_station.DispatchStation.build(vid, station_id, (), "DCFC"),
        "ChargingStation": lambda: charging_station.ChargingStation.build(vid, station_id, "DCFC"),
        "ChargeQueueing": lambda: charge_queueing.ChargeQueueing.build(vid, station_id, "DCFC", SimTime(0)),
        "DispatchTrip": lambda: dispatch_trip.DispatchTrip.build(vid, rid or "nope", ()),
        "ServicingTrip": lambda: servicing_trip.ServicingTrip.build(vid, req, SimTime(0), ()) if req is not None else idle.Idle.build(vid),
        "OutOfService": lambda: out_of_service.OutOfService.build(vid),
    }[act]()
    return ops.modify_vehicle_safe(sim, v.modify_vehicle_state(s)).unwrap()


def judge(sim, env, instructions, fleets, valid_states, flags: Set[str], stats, on_shift: Optional[Dict[str, bool]] = None) -> List[Violation]:
    """the C12 oracle for one dispatcher run: `instructions` is what Dispatcher.generate_instructions returned for `sim`"""
    import h3

    out: List[Violation] = []
    cfg = env.config.dispatcher
    thr = float(cfg.matching_range_km_threshold)
    base_thr = float(cfg.base_charging_range_km_threshold)

    def v_eligible(v, f) -> bool:
        rng = env.mechatronics[v.mechatronics_id].range_remaining_km(v)
        avail = on_shift[v.id] if on_shift is not None and v.id in on_shift else bool(v.driver_state.available)
        return (type(v.vehicle_state).__name__.lower() in valid_states and avail
                and (f is None or f in v.membership.memberships)
                and not (type(v.vehicle_state).__name__ == "ChargingBase" and rng < base_thr) and rng > thr)

    def r_eligible(r, f) -> bool:
        return r.dispatched_vehicle is None and (f is None or f in r.membership.memberships)

    groups: Dict[Any, list] = collections.defaultdict(list)
    for i in instructions:
        r = sim.requests.get(i.request_id)
        if r is None:
            out.append(Violation(PROP, "dispatcher names a request that is not waiting", {"request": i.request_id}))
            continue
        f = next(iter(r.membership.memberships)) if fleets else None
        groups[f].append(i)
    for f in (fleets or [None]):
        ev = [v for v in sorted(sim.vehicles.values(), key=lambda x: x.id) if v_eligible(v, f)]
        er = [r for r in sorted(sim.requests.values(), key=lambda x: x.id) if r_eligible(r, f)]
        g = groups.get(f, [])
        stats["groups"] += 1
        evi, eri = {v.id for v in ev}, {r.id for r in er}
        detail = {"fleet": f, "eligible_vehicles": sorted(evi), "eligible_requests": sorted(eri), "pairs": [(i.vehicle_id, i.request_id) for i in g]}
        vs_, rs_ = [i.vehicle_id for i in g], [i.request_id for i in g]
        if len(set(vs_)) != len(vs_):
            out.append(Violation(PROP, "a vehicle is paired twice within one fleet", detail))
        if len(set(rs_)) != len(rs_):
            out.append(Violation(PROP, "a request is paired twice within one fleet", detail))
        for i in g:
            if i.vehicle_id not in evi:
                v = sim.vehicles[i.vehicle_id]
                why = ("not a member of the fleet" if f is not None and f not in v.membership.memberships else
                       "driver off shift" if not (on_shift[v.id] if on_shift is not None and v.id in on_shift else v.driver_state.available) else
                       "activity not dispatchable" if type(v.vehicle_state).__name__.lower() not in valid_states else "not enough range")
                out.append(Violation(PROP, f"an ineligible vehicle is paired ({why})", dict(detail, vehicle=i.vehicle_id)))
            if i.request_id not in eri:
                out.append(Violation(PROP, "an ineligible request is paired (already assigned or other fleet)", dict(detail, request=i.request_id)))
        if not out and len(g) != min(len(ev), len(er)):
            out.append(Violation(PROP, "number of pairs != min(eligible vehicles, eligible requests)", detail))
        if not out and ev and er:
            cost = [[h3.h3_distance(v.geoid, r.geoid) for r in er] for v in ev]
            tot = sum(h3.h3_distance(sim.vehicles[i.vehicle_id].geoid, sim.requests[i.request_id].geoid) for i in g)
            best = optimum(cost)
            if tot != best:
                out.append(Violation(PROP, "total grid distance is not minimal", dict(detail, total=tot, optimum=best)))
            flat = [c for row in cost for c in row]
            if len(set(flat)) < len(flat):
                flags.add("cost_tie")
            inel_v = len(sim.vehicles) > len(ev)
            inel_r = len(sim.requests) > len(er)
            if inel_v:
                flags.add("ineligible_vehicle")
            if inel_r:
                flags.add("ineligible_request")
            if len(ev) != len(er) and min(len(ev), len(er)) >= 2:
                flags.add("rectangular")
                if len(set(flat)) < len(flat) and inel_v and inel_r:
                    flags.add("nontrivial_group")
        if out:
            break

    return out


def check_case(case: Dict[str, Any]) -> Tuple[List[Violation], Set[str], Dict[str, int]]:
    import h3
    from nrel.hive.dispatcher.instruction_generator.dispatcher import Dispatcher
    from nrel.hive.model.request.request import Request
    from nrel.hive.model.sim_time import SimTime
    from nrel.hive.state.driver_state.human_driver_state.human_driver_state import HumanAvailable, HumanUnavailable
    from nrel.hive.state.simulation_state import simulation_state_ops as ops
    from hv.worlds import _site

    out: List[Violation] = []
    flags: Set[str] = set()
    stats = collections.Counter()
    w = case["world"]
    world = World(w, gens=None)
    try:
        sim, env = world.rp.s, world.rp.e
        cfg = env.config.dispatcher
        fleets = list(w["fleet_ids"])
        # requests
        reqs = []
        for q in case["reqs"]:
            og = h3.geo_to_h3(*_site(w, q["o"]), 15)
            dg = h3.geo_to_h3(*_site(w, q["d"]), 15)
            r = Request.build(q["id"], og, dg, sim.road_network, SimTime(0), 1, False, fleet_id=q["fleet"], value=q["value"])
            reqs.append((q, r))
        vids = sorted(sim.vehicles.keys())
        for q, r in reqs:
            if q["assigned"] and vids:
                r = r.assign_dispatched_vehicle(vids[0], SimTime(0))
            sim = ops.add_request_safe(sim, r).unwrap()
        # activities and shifts
        base_id = sorted(sim.bases.keys())[0]
        station_id = sorted(sim.stations.keys())[0]
        first_req = reqs[0][1] if reqs else None
        for k, spec in enumerate(w["vehicles"]):
            v = sim.vehicles[spec["id"]]
            sim = _set_activity(sim, v, case["acts"][k], base_id, station_id, first_req.id if first_req else None, first_req)
            v = sim.vehicles[spec["id"]]
            if v.driver_state.schedule_id is not None:
                attrs = v.driver_state.attributes
                ds = HumanAvailable(attrs) if case["avail"][k] else HumanUnavailable(attrs)
                sim = ops.modify_vehicle_safe(sim, v.modify_driver_state(ds)).unwrap()
        _, instructions = Dispatcher(cfg).generate_instructions(sim, env)
        stats["dispatcher_calls"] += 1
        out.extend(judge(sim, env, instructions, fleets, {x.lower() for x in w["dispatcher"]["valid_dispatch_states"]}, flags, stats))
    finally:
        world.close()
    return out, flags, dict(stats)


class C12History(__import__("hv.history", fromlist=["Monitor"]).Monitor):
    """the same oracle on every run of the built-in Dispatcher inside whole histories (states reached by the real step
    pipeline: requests already assigned, vehicles mid-activity, drivers flipping shifts), through the recording proxy"""

    prop = PROP

    def after_step(self, h, before, after, events):
        disp = next((g for g in h.builtin_gens if g.name == "Dispatcher"), None)
        if disp is None or disp.seen is None:
            return
        flags: Set[str] = set()
        stats = collections.Counter()
        # "each time the dispatcher runs": judged on the state of the step at that moment, as a generator installed next to the
        # dispatcher observes it (every generator of a step is handed the same state: after the pre-step and driver updates)
        obs = next((g.seen for g in h.scripted if getattr(g, "seen", None) is not None), None)
        if obs is not None:
            h.flag("h_judged_on_the_state_a_neighbouring_generator_saw")
        # "driver on shift" is decided from the shift table and the clock (start inclusive, end exclusive, wrapping past midnight;
        # the time at which the step begins), not from the availability flag the dispatcher itself reads
        sched = {sid: tuple(sum(int(p_) * m for p_, m in zip(x.split(":"), (3600, 60, 1))) for x in (a_, b_)) for sid, a_, b_ in (h.spec.get("schedules") or [])}
        t_ = int(disp.seen.sim_time) % 86400
        on_shift = {}
        for v_ in h.spec["vehicles"]:
            if v_.get("schedule") in sched:
                a_, b_ = sched[v_["schedule"]]
                on_shift[v_["id"]] = (a_ <= t_ < b_) if a_ <= b_ else (t_ >= a_ or t_ < b_)
        if on_shift:
            h.flag("h_human_drivers_judged_by_the_shift_table")
        vs = judge(obs if obs is not None else disp.seen, h.env, disp.emitted, list(h.spec.get("fleet_ids") or []), set(h.env.config.dispatcher.valid_dispatch_states), flags, stats, on_shift=on_shift)
        h.stats["dispatcher_runs_in_histories"] += 1
        h.stats["history_groups"] += stats["groups"]
        if disp.emitted:
            h.flag("history_pairing")
        for f in flags:
            h.flag("h_" + f)
        for v in vs:
            v.key = v.key + " (in a history)"
            yield v


from hv import hprop  # noqa: E402

HIST = hprop.HistoryProperty(
    prop=PROP, monitors=lambda: [C12History()],
    profile=profile(nv=(2, 8), n_requests=(10, 40), builtin=[True], fleets=[0, 0, 1, 2, 3], socs=[0.05, 0.12, 0.3, 0.31, 0.6, 0.9, 1.0], timeouts=[300, 600], human_share=[False, True, True]),
    nontrivial=lambda f: "history_pairing" in f, rule="", assumptions=[], quick=(4, 60, 40), thorough=(4, 800, 60),
)


def nshards(tier):
    return 16


def shard(tier, seed, idx) -> ShardResult:
    if idx >= 12:
        return hprop.shard(HIST, tier, seed, idx)
    res = ShardResult()
    comp.run(PROP, st_case(), check_case, lambda f: "nontrivial_group" in f, res, cases=400 if tier == "quick" else 8000, seed=seed * 1000 + idx,
             kind="component", sample_fn=lambda c: {"vehicles": [(v["id"], v["site"], v["soc"], v["fleets"], a) for v, a in zip(c["world"]["vehicles"], c["acts"])], "requests": c["reqs"], "dispatcher": c["world"]["dispatcher"]})
    return res


def replay(case):
    if "ops" in case:
        return hprop.replay_case(HIST, case)
    return comp.replay(PROP, check_case, case)


def minimise(failure):
    if "ops" in failure["case"]:
        return hprop.minimise_and_replayable(HIST, failure)
    return failure["case"]
