"""C05 Energy and money are conserved between vehicles and stations (DESIGN §C05)."""
from hv import hprop
from hv.monitors import C05Ledger
from hv.worlds import profile

hprop.install(globals(), hprop.HistoryProperty(
    prop="C05",
    monitors=lambda: [C05Ledger()],
    profile=profile(nv=(2, 6), n_requests=(4, 30), socs=[0.003, 0.02, 0.05, 0.2, 0.5, 0.8, 0.97], prices_always=True, builtin=[True, True, False]),
    nontrivial=lambda f: {"two_nonzero_tariffs", "session_cut_by_instruction"} <= f,
    rule=("stateful histories over generated worlds with complete time-varying tariff tables, mixed electric/petrol fleets, station "
          "and base charging, fares from generated rate structures; a double-entry ledger built from charge and pickup events is "
          "compared with vehicle/station balances and energy counters after every step (per step and cumulatively, tol 1e-6), and "
          "every charge price with energy x the station's tariff for that plug; the stations' per-step load reports (construct_station_load_events on the step's reports) "
          "equal what each station's state dispensed in the step; the summary statistics (get_summary_stats mid-run, at the end and once more) equal the totals over stations / vehicles. non-trivial = charge sessions at >=2 distinct "
          "non-zero (station, plug, tariff) AND a session cut short by an instruction; distinct = sha1(world, op log)"),
    assumptions=hprop.COMMON_ASSUMPTIONS + ["tariff tables are complete (name every station and plug), so the C11 price-table defects cannot mask this property"],
    quick=(16, 60, 40), thorough=(16, 600, 60),
    instr_bias={"throttle": True, "kinds": [2, 2, 2, 3, 3, 3, 4, 4, 4, 0, 0, 1, 5, 6, 7], "tclasses": [0, 1, 1, 2, 3, 5, 5]},
))
FLOORS = {"quick": {"flag:two_nonzero_tariffs": 20}, "thorough": {"flag:two_nonzero_tariffs": 200}}
