"""C07 A vehicle's activity is consistent with where it is (DESIGN §C07)."""
from hv import hprop
from hv.monitors import C07Location
from hv.worlds import profile

hprop.install(globals(), hprop.HistoryProperty(
    prop="C07",
    monitors=lambda: [C07Location()],
    profile=profile(nv=(2, 6), n_requests=(6, 30), socs=[0.02, 0.1, 0.3, 0.8, 0.97], steps=[1, 2, 5, 15, 30, 45, 60, 60, 90, 120, 300, 600], builtin=[True, True, False],
                    nets=["hav", "gen", "gen", "denver"]),
    nontrivial=lambda f: {"stationary_entered", "stationary_instruction_remote_target", "arrival_by_default_transition"} <= f,
    rule=("stateful histories over generated worlds on straight-line, generated street-graph and Denver networks; directives biased "
          "to stationary instructions naming far-away stations/bases, instructions from mid-link, every activity as starting point; a custom controller's own instruction type that names the next activity itself (boarding, queueing, "
          "travelling with a route it planned: direct, from / to elsewhere, empty, reversed), queued for a step or probed; "
          "after every step and every single-instruction probe each vehicle's activity is compared with its cell and its route with "
          "its position and target; pickup/drop-off events with request origin/destination. non-trivial = >=1 stationary activity "
          "entered AND >=1 stationary instruction naming a remote target AND >=1 arrival by default transition; distinct = sha1(world, op log)"),
    assumptions=hprop.COMMON_ASSUMPTIONS,
    quick=(16, 100, 35), thorough=(16, 1200, 60), probes=True,
    instr_bias={"relocate": True, "raw": True, "kinds": [3, 3, 3, 4, 4, 4, 6, 6, 6, 2, 5, 1, 0, 8, 7], "tclasses": [0, 1, 2, 2, 2, 2, 3, 5]},
))
FLOORS = {"quick": {"flag:stationary_instruction_remote_target": 60}, "thorough": {"flag:stationary_instruction_remote_target": 1000}}
