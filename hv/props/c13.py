"""C13 Routes are connected paths from origin to destination (DESIGN §C13)."""
from __future__ import annotations

import collections
from typing import Any, Dict, List, Set, Tuple

from hypothesis import strategies as st

from hv import comp, graphs, hprop
from hv.base import ShardResult, Violation

PROP = "C13"
RULE = ("generated strongly connected street graphs (4-14 nodes on a jittered grid: Hamiltonian cycle + extra one-way and two-way streets, "
        "lengths >= straight line x [1, 1.6], speeds 5-120 km/h, some edges without speed), the shipped Denver graph and the straight-line "
        "network (at ten places on earth, destinations also in the ring of 1-2 cells around the origin); position pairs built from link starts / ends / interior cells, snapped arbitrary cells (also tens of kilometres outside the network) and mid-link vehicle positions (the cell "
        "of the (lat, lon)-interpolated point, which may lie off the link's grid line), including the same link in both "
        "orders, opposite directions of one street, adjacent links and identical positions; validity predicate on route(o, d): empty iff o == d; "
        "first link starts at o's cell on o's link, last link ends at d's cell on d's link, consecutive links join end to start, every link id "
        "resolves, every inner link is a graph edge; position_from_geoid(cell) names an existing link and a cell on that link's h3 line. "
        "non-trivial = pair needing >= 1 inner link, or same link in 'backwards' order (needs a loop), or opposite directions; distinct = sha1(case)")
ASSUMPTIONS = ["street graphs are strongly connected and node ids are ints, as OSMRoadNetwork requires; a third of the generated graphs have parallel edges between one junction pair (the link table keeps one link per ordered node pair)",
               "the OSM loader workaround (node_link_graph(edges='links')) is used because OSMRoadNetwork.from_file cannot read the shipped JSON under the installed networkx",
               "PYTHONHASHSEED pinned to 0"]
HAV_PLACES = [(graphs.LAT0, graphs.LON0), (graphs.LAT0, graphs.LON0), (47.6062, -122.3321), (41.8781, -87.6298), (51.5074, -0.1278), (35.6762, 139.6503),
              (-0.1807, -78.4678), (-33.8688, 151.2093), (69.6492, 18.9553), (0.0001, 179.9990)]
FLOORS = {"quick": {"pairs": 2000, "flag:inner_links": 350, "flag:same_link_backwards": 50, "flag:opposite_directions": 20, "flag:off_grid_line_interior": 30}, "thorough": {"pairs": 100000}}


@st.composite
def st_case(draw) -> Dict[str, Any]:
    net = draw(st.sampled_from(["gen", "gen", "gen", "denver", "hav"]))
    g = draw(graphs.st_graph(4, 14, arbitrary_lengths=draw(st.booleans()), scales=(1, 1, 1, 3), parallel=draw(st.sampled_from([False, False, True])))) if net == "gen" else None
    if net == "hav":
        # the straight-line network has no geography of its own: any place on earth is a legal input, and the size and
        # orientation of the location cells differ from place to place (neighbouring resolution-15 cells are 0.82 m apart
        # in Tromso, 1.04-1.07 m in Denver, 1.12 m in Sydney)
        la0, lo0 = draw(st.sampled_from(HAV_PLACES))
        cell = st.tuples(st.just("cell"), st.integers(0, 300), st.integers(0, 300)).map(lambda t: ["cell", round(la0 + t[1] * 0.00008, 6), round(lo0 + t[2] * 0.00008, 6)])
        # destination: an independent cell, or the i-th cell of the ring of radius 1-2 around the origin's cell (next-door positions)
        near = st.tuples(st.just("ring"), st.integers(1, 2), st.integers(0, 11)).map(list)
        pairs = draw(st.lists(st.tuples(cell, st.one_of(cell, near)).map(list), min_size=1, max_size=8))
    else:
        # any location can be snapped (requests and vehicles are placed by coordinates): also ones tens of kilometres outside the network
        far = st.tuples(st.just("cell"), st.integers(-25, 40), st.integers(-25, 40)).map(lambda t: ["cell", round(graphs.LAT0 + t[1] * 0.013, 6), round(graphs.LON0 + t[2] * 0.017, 6)])
        pos = st.one_of(graphs.st_position(), graphs.st_position(), graphs.st_position(), far)
        special = st.tuples(st.integers(0, 1000), graphs.st_where, graphs.st_where, st.sampled_from(["same", "reverse", "identical"]))
        pairs = []
        for _ in range(draw(st.integers(1, 10))):
            if draw(st.sampled_from([False, False, True])):
                li, w1, w2, mode = draw(special)
                pairs.append([["link", li, w1], ["rel", mode, w2]])
            else:
                pairs.append([draw(pos), draw(pos)])
    # the location resolution is configuration (sim_h3_resolution, default 15): coarser grids put the two ends of short
    # links into one cell
    return {"net": net, "graph": g, "pairs": pairs, "res": draw(st.sampled_from([15, 15, 15, 13, 12, 10, 9])) if net != "hav" else 15}


def network_for(case):
    res = case.get("res", 15)
    if case["net"] == "hav":
        from nrel.hive.model.roadnetwork.haversine_roadnetwork import HaversineRoadNetwork

        return HaversineRoadNetwork()
    if case["net"] == "denver":
        return graphs.denver_network(res=res)
    return graphs.build_network(case["graph"], res=res)


def resolve_pair(rn, case, o_spec, d_spec):
    import h3
    from nrel.hive.model.entity_position import EntityPosition

    if case["net"] == "hav":
        oc = h3.geo_to_h3(o_spec[1], o_spec[2], 15)
        if d_spec[0] == "ring":
            ring = sorted(h3.k_ring(oc, d_spec[1]) - h3.k_ring(oc, d_spec[1] - 1))
            dc = ring[d_spec[2] % len(ring)]
        else:
            dc = h3.geo_to_h3(d_spec[1], d_spec[2], 15)
        return (rn.position_from_geoid(oc), rn.position_from_geoid(dc))
    o = graphs.resolve_position(rn, o_spec)
    if d_spec[0] != "rel":
        return o, graphs.resolve_position(rn, d_spec)
    mode, w2 = d_spec[1], d_spec[2]
    if mode == "identical":
        return o, EntityPosition(o.link_id, o.geoid)
    if mode == "same":
        links = graphs.sorted_links(rn)
        idx = [l.link_id for l in links].index(o.link_id)
        return o, graphs.resolve_position(rn, ["link", idx, w2])
    u, v = o.link_id.split("-")
    rev = f"{v}-{u}"
    links = graphs.sorted_links(rn)
    ids = [l.link_id for l in links]
    if rev in ids:
        return o, graphs.resolve_position(rn, ["link", ids.index(rev), w2])
    return o, graphs.resolve_position(rn, ["link", ids.index(o.link_id), w2])


def check_case(case: Dict[str, Any]) -> Tuple[List[Violation], Set[str], Dict[str, int]]:
    import h3

    out: List[Violation] = []
    flags: Set[str] = set()
    stats = collections.Counter()
    rn = network_for(case)
    osm = case["net"] != "hav"
    edges = set(rn.graph.edges()) if osm else None
    for pi, (os_, ds_) in enumerate(case["pairs"]):
        try:
            o, d = resolve_pair(rn, case, os_, ds_)
        except AttributeError:
            o = d = None  # a snapped position was None and the second position is defined relative to it
        stats["pairs"] += 1
        if o is None or d is None:
            out.append(Violation(PROP, "snapping a location returned no position", {"pair": pi, "origin_spec": os_, "destination_spec": ds_}))
            break

        def bad(key, **detail):
            out.append(Violation(PROP, key, dict(detail, pair=pi, origin=list(o), destination=list(d))))

        for nm, p in (("origin", o), ("destination", d)):
            l = rn.link_from_link_id(p.link_id)
            if l is None:
                bad(f"snapped {nm} names a link that does not exist")
            elif osm and p.geoid not in h3.h3_line(l.start, l.end):
                if (os_ if nm == "origin" else ds_)[0] == "along":
                    flags.add("off_grid_line_interior")  # a mid-link vehicle position, not a snapped one
                else:
                    bad(f"snapped {nm} does not lie on the link it names")
        r = rn.route(o, d)
        if not r:
            if o != d:
                bad("empty route between different positions")
            else:
                flags.add("identical_positions")
            continue
        if o == d:
            bad("non-empty route between identical positions")
            continue
        if r[0].start != o.geoid:
            bad("route does not start at the origin", route_start=r[0].start)
        if r[-1].end != d.geoid:
            bad("route does not end at the destination", route_end=r[-1].end)
        if osm:
            if r[0].link_id != o.link_id:
                bad("first link is not the origin's link", first=r[0].link_id)
            if r[-1].link_id != d.link_id:
                bad("last link is not the destination's link", last=r[-1].link_id)
        for a, b in zip(r, r[1:]):
            if a.end != b.start:
                bad("consecutive links do not join end to start", at=a.link_id + "|" + b.link_id)
                break
        for l in r:
            if rn.link_from_link_id(l.link_id) is None:
                bad("route uses a link that does not exist", link=l.link_id)
                break
        if osm:
            for l in r[1:-1]:
                u, v = (int(x) for x in l.link_id.split("-"))
                if (u, v) not in edges:
                    bad("inner link is not an edge of the graph", link=l.link_id)
                    break
                gl = rn.link_from_link_id(l.link_id)
                if gl is not None and (l.start, l.end) != (gl.start, gl.end):
                    bad("inner link does not span its edge", link=l.link_id)
                    break
            if len(r) > 2:
                flags.add("inner_links")
            if o.link_id == d.link_id and "along" not in (os_[0], ds_[0]):
                line = h3.h3_line(rn.link_from_link_id(o.link_id).start, rn.link_from_link_id(o.link_id).end)
                if line.index(d.geoid) < line.index(o.geoid):
                    flags.add("same_link_backwards")
                else:
                    flags.add("same_link_forwards")
            if "-".join(reversed(o.link_id.split("-"))) == d.link_id:
                flags.add("opposite_directions")
        else:
            flags.add("straight_line")
            if ds_[0] == "ring":
                flags.add("straight_line_next_door")
        if out:
            break
    return out, flags, dict(stats)


def nshards(tier):
    return 16


def shard(tier, seed, idx) -> ShardResult:
    res = ShardResult()
    comp.run(PROP, st_case(), check_case, lambda f: bool(f & {"inner_links", "same_link_backwards", "opposite_directions"}), res,
             cases=300 if tier == "quick" else 8000, seed=seed * 1000 + idx, kind="component")
    return res


def replay(case):
    return comp.replay(PROP, check_case, case)


def minimise(failure):
    return failure["case"]
