"""C06 Vehicles move continuously and no faster than the road allows (DESIGN §C06).

Component level: whole journeys through `traverse()` on routes returned by `route()` (generated street
graphs, Denver, straight-line network). History level: the movement clauses on whole histories."""
from __future__ import annotations

import collections
from typing import Any, Dict, List, Set, Tuple

from hypothesis import strategies as st

from hv import comp, graphs, hprop
from hv.base import ShardResult, Violation
from hv.monitors import C06Movement
from hv.worlds import profile

PROP = "C06"
HIST = hprop.HistoryProperty(
    prop=PROP,
    monitors=lambda: [C06Movement()],
    profile=profile(nv=(2, 6), n_requests=(0, 25), socs=[0.002, 0.02, 0.3, 0.8, 0.97], nets=["hav", "gen", "gen", "denver", "denver"]),
    nontrivial=lambda f: "moved" in f,
    rule="", assumptions=[],
    quick=(8, 60, 40), thorough=(8, 800, 60),
    instr_bias={"kinds": [1, 1, 2, 2, 5, 5, 8, 8, 8, 0, 3, 6]},
)
RULE = ("(a) component: journeys on routes returned by route() between generated positions (link starts/ends/interiors, snapped cells) on "
        "generated strongly connected street graphs with strongly varying lengths and speeds, the Denver graph and the straight-line "
        "network (on a fifth of the generated graphs all link speeds are scaled x0.25 / x0.5 / x2 after the route was planned), step lengths 1-1800 s or chosen so that a step runs out just before / after the end of a link, iterated with traverse() to the end of the journey; per step: time-length of the driven part "
        "<= step + the sub-second part of every link driven to its end (charged in whole seconds) + one cell of snapping, reported distance = sum of driven links, remaining route starts "
        "where the driven part ends, driven + remaining links = original links in order with the same destination, strict progress when the "
        "step can cover >= 5 m, journey ends at the destination. (b) histories: position changes only with exactly one move event from a "
        "travelling activity, odometer = event distance, remaining route is the tail of the previous one and starts at the vehicle, "
        "progress per step, travelling activity left within one step of arriving. non-trivial (a) = journey of >= 3 steps with a split link "
        "and a step finishing several links; (b) = history with a move; distinct = sha1(case)")
ASSUMPTIONS = hprop.COMMON_ASSUMPTIONS + [
    "movement is quantised to h3 cells: progress per step is only asserted when speed x step >= 5 m",
    "traverse() documents closed routes (first start == last end) as already consumed: order/progress clauses apply to open routes",
    "the 'leaves within one step of arriving' clause is asserted when the target activity is enterable for the vehicle (plug installed and of its energy type)",
    "distances are HIVE's own link-traversal distances (a split link is re-measured by great-circle distance)",
]
FLOORS = {"quick": {"journey_steps": 5000, "flag:split_link": 150, "flag:moved": 25}, "thorough": {"journey_steps": 100000}}

CAP = 400  # steps followed per journey
# step lengths: absolute seconds, or ["rel", k, f]: chosen against the journey so that the k-th step runs out a fraction ~f/(k+f)
# before (f > 0) or after (f < 0) the end of the first link - the boundary cases of the code that splits a link
DT = st.one_of(st.sampled_from([1, 2, 5, 7, 15, 30, 45, 60, 90, 120, 300, 900, 1800]),
               st.sampled_from([1, 2, 5, 7, 15, 30, 45, 60, 90, 120, 300, 900, 1800]),
               st.tuples(st.just("rel"), st.sampled_from([1, 1, 2, 3]), st.sampled_from([0.0005, 0.002, 0.005, 0.008, 0.02, 0.05, -0.002, -0.01])).map(list))


@st.composite
def st_case(draw) -> Dict[str, Any]:
    net = draw(st.sampled_from(["gen", "gen", "denver", "hav"]))
    g = draw(graphs.st_graph(4, 12)) if net == "gen" else None
    far = draw(st.sampled_from([1, 1, 5])) if net == "hav" else 1  # straight-line journeys of up to ~3 km or ~15 km
    pos = graphs.st_position() if net != "hav" else st.tuples(st.just("cell"), st.integers(0, 300), st.integers(0, 300)).map(
        lambda t: ["cell", round(graphs.LAT0 + t[1] * 0.00008 * far, 6), round(graphs.LON0 + t[2] * 0.00008 * far, 6)])
    pairs = draw(st.lists(st.tuples(pos, pos, DT).map(list), min_size=1, max_size=6))
    # link speeds may have changed since the route was planned (traverse() takes them from the network, not from the route):
    # the journey is then driven on a copy of the street graph whose speeds are all scaled
    replan = draw(st.sampled_from([None, None, 0.5, 0.25, 2.0])) if net == "gen" else None
    return {"net": net, "graph": g, "pairs": pairs, "speeds_scaled_since_planning": replan}


def network_for(case):
    if case["net"] == "hav":
        from nrel.hive.model.roadnetwork.haversine_roadnetwork import HaversineRoadNetwork

        return HaversineRoadNetwork()
    if case["net"] == "denver":
        return graphs.denver_network()
    return graphs.build_network(case["graph"])


def _nz_ids(links) -> List[str]:
    out: List[str] = []
    for l in links:
        if l.start != l.end and (not out or out[-1] != l.link_id):
            out.append(l.link_id)
    return out


def check_case(case: Dict[str, Any]) -> Tuple[List[Violation], Set[str], Dict[str, int]]:
    from nrel.hive.model.roadnetwork.routetraversal import traverse

    out: List[Violation] = []
    flags: Set[str] = set()
    stats = collections.Counter()
    rn = network_for(case)
    planned_on = rn
    f = case.get("speeds_scaled_since_planning")
    if f:
        g2 = dict(case["graph"], edges=[[e[0], e[1], e[2], (e[3] or 40.0) * f] + ([e[4] / f] if len(e) > 4 else []) for e in case["graph"]["edges"]])
        rn = graphs.build_network(g2)
        flags.add("speeds_changed_since_planning")
    for pi, (os_, ds_, dt) in enumerate(case["pairs"]):
        o = graphs.resolve_position(rn, os_) if case["net"] != "hav" else rn.position_from_geoid(__import__("h3").geo_to_h3(os_[1], os_[2], 15))
        d = graphs.resolve_position(rn, ds_) if case["net"] != "hav" else rn.position_from_geoid(__import__("h3").geo_to_h3(ds_[1], ds_[2], 15))
        route = planned_on.route(o, d)
        stats["journeys"] += 1
        if not route or route[0].start == route[-1].end:
            stats["closed_or_empty_routes"] += 1
            continue
        if isinstance(dt, list):
            first = next(l for l in route if l.start != l.end)
            dt = max(1, int(3600.0 * first.distance_km / first.speed_kmph / (dt[1] + dt[2])))
            flags.add("step_ends_near_a_link_end")
        dest = route[-1].end
        steps = 0
        last_end = route[0].start
        multi = split = False

        def bad(key, **detail):
            out.append(Violation(PROP, key, dict(detail, pair=pi, step=steps, dt=dt)))

        while route and steps < CAP:
            if route[0].start == route[-1].end:
                break  # became closed: documented as consumed
            err, res = traverse(route, dt, rn)
            if err is not None or res is None:
                bad("traverse failed on a route returned by route()", error=repr(err))
                break
            E, R2 = res.experienced_route, res.remaining_route
            steps += 1
            stats["journey_steps"] += 1
            if not E:
                bad("no driven part on an open route")
                break
            speeds = [rn.link_from_link_id(l.link_id).speed_kmph for l in E]
            tt = sum(3600.0 * l.distance_km / s for l, s in zip(E, speeds))
            # the simulator charges whole seconds for a link driven to its end: the truncated fraction is free road
            times = [3600.0 * l.distance_km / s for l, s in zip(E, speeds)]
            done = times[:-1] if (R2 and R2[0].link_id == E[-1].link_id) else times
            allow = dt + sum(t - int(t) for t in done) + 3600.0 * 0.002 / min(speeds) + 1e-6
            if tt > allow:
                bad("covered more road than the link speeds allow in one step", driven_s=tt, allowed_s=allow, links=len(E))
            if abs(res.traversal_distance_km - sum(l.distance_km for l in E)) > 1e-9:
                bad("reported distance != sum of the driven links", reported=res.traversal_distance_km, links=sum(l.distance_km for l in E))
            if E[0].start != last_end:
                bad("driven part does not start where the previous step ended")
            for a, b in zip(E, E[1:]):
                if a.end != b.start:
                    bad("driven part is not connected")
                    break
            if R2 and R2[0].start != E[-1].end:
                bad("remaining route does not start where the driven part ends", driven_end=E[-1].end, remaining_start=R2[0].start)
            if (R2[-1].end if R2 else E[-1].end) != dest:
                bad("destination changed while driving")
            if _nz_ids(tuple(E) + tuple(R2)) != _nz_ids(route):
                bad("driven + remaining links differ from the original route", before=_nz_ids(route), after=_nz_ids(tuple(E) + tuple(R2)))
            t0 = sum(3600.0 * l.distance_km / rn.link_from_link_id(l.link_id).speed_kmph for l in route if l.start != l.end)
            t1 = sum(3600.0 * l.distance_km / rn.link_from_link_id(l.link_id).speed_kmph for l in R2 if l.start != l.end)
            first = next((l for l in route if l.start != l.end), None)
            if first is not None and rn.link_from_link_id(first.link_id).speed_kmph * dt / 3.6 >= 5.0 and not t1 < t0:
                bad("no progress along the route in one step", remaining_before_s=t0, remaining_after_s=t1)
            if len([l for l in E if l.start != l.end]) >= 2:
                multi = True
            if R2 and E and R2[0].link_id == E[-1].link_id:
                split = True
            last_end = E[-1].end
            route = R2
            if out:
                break
        if steps >= CAP:
            stats["journeys_truncated_at_cap"] += 1  # cost bound only: no verdict on arrival for these
        elif not out and last_end != dest and not (route and route[0].start == route[-1].end):
            bad("journey ended away from the destination", ended=last_end, destination=dest)
        if split:
            flags.add("split_link")
        if multi:
            flags.add("multi_link_step")
        if steps >= 3 and split and multi:
            flags.add("nontrivial_journey")
        if out:
            break
    return out, flags, dict(stats)


def nshards(tier):
    return 16


def shard(tier, seed, idx) -> ShardResult:
    if idx < 8:
        res = ShardResult()
        comp.run(PROP, st_case(), check_case, lambda f: "nontrivial_journey" in f, res,
                 cases=250 if tier == "quick" else 6000, seed=seed * 1000 + idx, kind="component")
        return res
    return hprop.shard(HIST, tier, seed, idx)


def replay(case):
    if case.get("kind") == "component":
        return comp.replay(PROP, check_case, case)
    return hprop.replay_case(HIST, case)


def minimise(failure):
    if failure["case"].get("kind") == "component":
        return failure["case"]
    return hprop.minimise_and_replayable(HIST, failure)
