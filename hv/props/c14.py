"""C14 Routes on a street network are fastest paths (DESIGN §C14)."""
from __future__ import annotations

import collections
from typing import Any, Dict, List, Set, Tuple

from hypothesis import strategies as st

from hv import comp, graphs
from hv.base import ShardResult, Violation

PROP = "C14"
RULE = ("generated strongly connected street graphs with strongly varying speeds (5-120 km/h, slow direct streets vs fast detours arise by "
        "construction; every third graph has uniform speeds, where the search estimate is tight) and the shipped Denver graph; each case asks one "
        "network object a sequence of queries: random link pairs plus 'fans' (every link into and out of one junction as destination, from 1-3 "
        "origins, so that many destinations share a cell), and in a quarter of the cases the network is written out with to_file() between two queries; for link pairs (a, b): travel time of the inner part of route(a.start -> b.end), summed from "
        "the input's travel_time attributes (length / speed where an edge has none), must equal the minimum travel time between a's end junction and b's start junction computed by "
        "an independent heapq Dijkstra written for the harness (rel. tol 1e-9). non-trivial = junction pair whose fastest path is not a "
        "fewest-links path; distinct = sha1(case)")
ASSUMPTIONS = ["no parallel edges in generated graphs (the link table keeps one link per ordered node pair); on Denver the cheaper of two parallel edges is the reference",
               "edge travel times are computed from the input data: the travel_time attribute, else length / speed_kmph (the configured default speed - 40, 25 or 70 km/h - when an edge has no speed)",
               "PYTHONHASHSEED pinned to 0"]
FLOORS = {"quick": {"pairs": 2000, "flag:fastest_is_not_fewest_links": 150}, "thorough": {"pairs": 100000}}


@st.composite
def st_case(draw) -> Dict[str, Any]:
    net = draw(st.sampled_from(["gen", "gen", "gen", "denver"]))
    g = draw(graphs.st_graph(5, 14, varied_speed=draw(st.sampled_from([True, True, False])), arbitrary_lengths=draw(st.booleans()), scales=(1, 1, 1, 3, 10))) if net == "gen" else None
    pairs = draw(st.lists(st.tuples(st.integers(0, 1000), st.integers(0, 1000)).map(list), min_size=1, max_size=12))
    # one network object answers many queries in a run, and many of them end in the same cell: every link into a junction ends
    # in the cell where every link out of it starts. a "fan" asks for all of those destinations in turn from a few origins
    fans = draw(st.lists(st.tuples(st.integers(0, 1000), st.lists(st.integers(0, 1000), min_size=1, max_size=3), st.integers(0, 50)).map(list), max_size=3))
    # the location resolution is configuration (sim_h3_resolution, default 15): coarser grids put the two ends of short
    # links into one cell (9-11: whole blocks share a cell, and cell-centre distances differ visibly from coordinate distances)
    # a network in use may be written out at any time (OSMRoadNetwork.to_file, the documented way to cache a downloaded graph)
    save_at = draw(st.sampled_from([None, None, None, 0, 1, 3]))
    # the speed of links that carry none is configuration (default_speed_kmph of the network section, default 40)
    dspeed = draw(st.sampled_from([40.0, 40.0, 40.0, 25.0, 70.0]))
    return {"net": net, "graph": g, "pairs": pairs, "fans": fans, "save_at": save_at, "default_speed_kmph": dspeed, "res": draw(st.sampled_from([15, 15, 15, 13, 12, 11, 10, 9])) if net != "hav" else 15}


def check_case(case: Dict[str, Any]) -> Tuple[List[Violation], Set[str], Dict[str, int]]:
    from nrel.hive.model.entity_position import EntityPosition

    out: List[Violation] = []
    flags: Set[str] = set()
    stats = collections.Counter()
    dspeed = float(case.get("default_speed_kmph", 40.0))
    rn = graphs.denver_network(dspeed, res=case.get("res", 15)) if case["net"] == "denver" else graphs.build_network(case["graph"], dspeed, res=case.get("res", 15))
    # link times come from the input data (travel_time attribute, else length / speed), not from what the network stored
    edges = graphs.edge_table_from_input("denver" if case["net"] == "denver" else case["graph"], dspeed)
    links = graphs.sorted_links(rn)
    queries = [(links[ai % len(links)], links[bi % len(links)], "end") for ai, bi in case["pairs"]]
    nodes = sorted({int(l.link_id.split("-")[0]) for l in links})
    for ni, origins, rot in case.get("fans", []):
        node = nodes[ni % len(nodes)]
        dests = [(l, "end") for l in links if int(l.link_id.split("-")[1]) == node] + [(l, "start") for l in links if int(l.link_id.split("-")[0]) == node]
        dests = dests[rot % len(dests):] + dests[:rot % len(dests)]
        for ai in origins:
            queries += [(links[ai % len(links)], b, w) for b, w in dests[:8]]
        flags.add("fan_of_destinations_in_one_cell")
    for pi, (a, b, w) in enumerate(queries):
        if case.get("save_at") is not None and pi == case["save_at"]:
            import os, tempfile

            fd, path = tempfile.mkstemp(suffix=".json", prefix="hv-c14-")
            os.close(fd)
            try:
                rn.to_file(path)
                flags.add("network_written_to_file_between_queries")
            finally:
                os.unlink(path)
        o, d = EntityPosition(a.link_id, a.start), EntityPosition(b.link_id, b.end if w == "end" else b.start)
        if o == d:
            continue
        r = rn.route(o, d)
        stats["pairs"] += 1
        if not r:
            out.append(Violation(PROP, "no route between two links of a strongly connected graph", {"pair": pi, "from": a.link_id, "to": b.link_id}))
            break
        u, v = int(a.link_id.split("-")[1]), int(b.link_id.split("-")[0])
        inner = r[1:-1]
        try:
            tt = sum(edges[tuple(int(x) for x in l.link_id.split("-"))]["travel_time"] for l in inner)
        except KeyError:
            out.append(Violation(PROP, "inner link is not an edge of the graph", {"pair": pi}))
            break
        best = graphs.dijkstra(edges, u, v)
        if best is None:
            continue
        if tt > best * (1 + 1e-9) + 1e-9:
            out.append(Violation(PROP, "route is slower than the fastest path between the two junctions",
                                 {"pair": pi, "from_link": a.link_id, "to_link": b.link_id, "route_s": tt, "fastest_s": best, "excess_s": tt - best, "net": case["net"]}))
            break
        hops = graphs.fewest_links(edges, u, v)
        if hops is not None and len(inner) > hops:
            flags.add("fastest_is_not_fewest_links")
        if len(inner) >= 2:
            flags.add("multi_link_inner_path")
    return out, flags, dict(stats)


def nshards(tier):
    return 16


def shard(tier, seed, idx) -> ShardResult:
    res = ShardResult()
    comp.run(PROP, st_case(), check_case, lambda f: "fastest_is_not_fewest_links" in f, res,
             cases=300 if tier == "quick" else 6000, seed=seed * 1000 + idx, kind="component")
    return res


def replay(case):
    return comp.replay(PROP, check_case, case)


def minimise(failure):
    return failure["case"]
