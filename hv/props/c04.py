"""C04 Vehicle energy stays physical and fully accounted for (DESIGN §C04).

Two levels: a component check on the mechatronics methods over generated powertrain / charger
definitions and call sequences, and the per-step identities on whole histories."""
from __future__ import annotations

import collections
from typing import Any, Dict, List, Set, Tuple

from hypothesis import strategies as st

from hv import comp, hprop
from hv.base import ShardResult, TOL, Violation
from hv.monitors import C04Energy
from hv.worlds import profile

PROP = "C04"
HIST = hprop.HistoryProperty(
    prop=PROP,
    monitors=lambda: [C04Energy()],
    profile=profile(nv=(2, 6), n_requests=(0, 25), socs=[0.0, 0.0005, 0.002, 0.004, 0.01, 0.05, 0.3, 0.9, 0.97, 0.999, 1.0],
                    mechs=["leaf_50", "tiny_bev", "tiny_bev", "toyota_corolla", "tiny_ice", "tiny_ice"], steps=[15, 30, 45, 60, 60, 90, 120, 300]),
    nontrivial=lambda f: {"charged", "went_out_of_service"} <= f,
    rule="", assumptions=[],
    quick=(8, 60, 40), thorough=(8, 800, 60),
    instr_bias={"throttle": True, "kinds": [2, 2, 3, 3, 4, 4, 1, 1, 5, 8, 8, 0, 0, 6, 7]},
)
RULE = ("(a) component: generated BEV definitions (capacity 2-200 kWh, idle rate, positive consumption table, positive charge curve with "
        "sub-step 1-120 s, taper cut-off) and ICE definitions (tank, idle rate, mpg), chargers 0.5-350 kW and 0.01-0.5 gal/s incl. wrong "
        "energy type, initial level incl. 0 and full, random sequences of drive(route)/idle(t)/charge(plug, t) calls with durations "
        "1-3600 s incl. below / not a multiple of the curve sub-step; after every call: level in [0, capacity], booked gain/expenditure "
        "equals the level change, strict decrease when driving/idling with energy, charge <= plug rate x duration, running identity "
        "level = initial + gained - expended. (b) histories: the same identities per vehicle per step on generated worlds, plus 'moved => "
        "energy left', 'ran empty => stopped where it was and out of service'. non-trivial (a) = sequence containing a charge whose duration "
        "is not a multiple of the curve sub-step, or a clamp at 0/capacity, or an ICE; (b) = history with a charge session and a vehicle "
        "running empty; distinct = sha1(case)")
ASSUMPTIONS = hprop.COMMON_ASSUMPTIONS + [
    "generated consumption tables and charge curves have strictly positive entries (physically meaningful definitions)",
    "a wrong-energy-type charger must leave the level unchanged (mechatronics log a warning and return the vehicle)",
]
FLOORS = {"quick": {"flag:charge_misaligned": 200, "flag:ice": 200, "flag:charged": 20, "flag:went_out_of_service": 20}, "thorough": {"flag:charge_misaligned": 2000}}

# ----------------------------------------------------------------------------- component level

_pos = st.floats(0.05, 3.0, allow_nan=False, allow_infinity=False)


@st.composite
def st_case(draw) -> Dict[str, Any]:
    ice = draw(st.sampled_from([False, False, True]))
    n = draw(st.integers(2, 6))
    speeds = sorted(draw(st.lists(st.integers(0, 90), min_size=n, max_size=n, unique=True)))
    table = [[s, round(draw(_pos), 4)] for s in speeds]
    if ice:
        mech = {"type": "ice", "tank": draw(st.sampled_from([0.3, 2.0, 10.0, 15.0])), "idle": draw(st.sampled_from([0.05, 0.2, 1.0])),
                "mpg": draw(st.sampled_from([15.0, 30.0, 50.0])), "table": table}
    else:
        m = draw(st.integers(2, 7))
        xs = sorted(draw(st.lists(st.integers(0, 100), min_size=m, max_size=m, unique=True)))
        curve = [[x / 100.0, round(draw(st.floats(0.05, 1.0)), 3)] for x in xs]
        mech = {"type": "bev", "capacity": draw(st.sampled_from([2.0, 5.0, 20.0, 50.0, 100.0, 200.0])), "idle": draw(st.sampled_from([0.1, 0.8, 3.0])),
                "whpm": draw(st.sampled_from([150.0, 225.0, 400.0])), "max_kw": draw(st.sampled_from([7.0, 50.0, 150.0])),
                "taper": draw(st.sampled_from([5.0, 10.0, 60.0])), "substep": draw(st.sampled_from([1, 5, 30, 60, 60, 120])),
                "curve": curve, "table": table}
    soc = draw(st.sampled_from([0.0, 0.001, 0.05, 0.5, 0.95, 0.999, 1.0]))
    durations = st.sampled_from([1, 2, 7, 15, 30, 45, 59, 60, 61, 90, 120, 300, 600, 3600])
    ops = []
    for _ in range(draw(st.integers(1, 25))):
        k = draw(st.sampled_from(["drive", "idle", "charge", "charge"]))
        if k == "drive":
            links = [[draw(st.sampled_from([0.001, 0.05, 0.5, 3.0, 12.0, 20.0])), draw(st.sampled_from([1, 5, 20, 40, 65, 90, 130]))]
                     for _ in range(draw(st.integers(1, 5)))]
            ops.append(["drive", links])
        elif k == "idle":
            ops.append(["idle", draw(durations)])
        else:
            et = draw(st.sampled_from(["same", "same", "same", "other"]))
            rate = draw(st.sampled_from([0.5, 3.3, 7.2, 50.0, 150.0, 350.0])) if (et == "same") != ice else draw(st.sampled_from([0.01, 0.16, 0.5]))
            ops.append(["charge", "electric" if (et == "same") != ice else "gasoline", rate, draw(durations)])
    return {"mech": mech, "soc": soc, "ops": ops}


def build_mech(m: Dict[str, Any]):
    from nrel.hive.model.vehicle.mechatronics.bev import BEV
    from nrel.hive.model.vehicle.mechatronics.ice import ICE
    from nrel.hive.model.vehicle.mechatronics.powercurve.tabular_powercurve import TabularPowercurve
    from nrel.hive.model.vehicle.mechatronics.powertrain.tabular_powertrain import TabularPowertrain

    cm = [{"speed": s, "energy_per_distance": e} for s, e in m["table"]]
    if m["type"] == "ice":
        pt = TabularPowertrain.from_data({"consumption_model": cm, "speed_units": "mph", "energy_units": "gal_gas", "distance_units": "mile", "scale_factor": 1.0 / m["mpg"]})
        return ICE("gen_ice", m["tank"], m["idle"], pt, m["mpg"]), m["tank"]
    pt = TabularPowertrain.from_data({"consumption_model": cm, "speed_units": "mph", "energy_units": "watthour", "distance_units": "mile", "scale_factor": m["whpm"]})
    pc = TabularPowercurve({"name": "gen", "power_type": "electric", "step_size_seconds": m["substep"],
                            "power_curve": [{"energy_kwh": x, "power_kw": y} for x, y in m["curve"]]}, m["max_kw"], m["capacity"])
    return BEV("gen_bev", m["capacity"], m["idle"], pt, pc, m["whpm"], m["taper"]), m["capacity"]


def check_case(case: Dict[str, Any]) -> Tuple[List[Violation], Set[str], Dict[str, int]]:
    import h3
    from nrel.hive.model.energy.charger.charger import Charger
    from nrel.hive.model.energy.energytype import EnergyType
    from nrel.hive.model.entity_position import EntityPosition
    from nrel.hive.model.membership import Membership
    from nrel.hive.model.roadnetwork.linktraversal import LinkTraversal
    from nrel.hive.model.vehicle.vehicle import Vehicle
    from nrel.hive.state.driver_state.autonomous_driver_state.autonomous_available import AutonomousAvailable
    from nrel.hive.state.driver_state.autonomous_driver_state.autonomous_driver_attributes import AutonomousDriverAttributes
    from nrel.hive.state.vehicle_state.idle import Idle

    out: List[Violation] = []
    flags: Set[str] = set()
    stats = collections.Counter()
    mech, cap = build_mech(case["mech"])
    kind = type(mech).__name__
    if kind == "ICE":
        flags.add("ice")
    et = EnergyType.GASOLINE if kind == "ICE" else EnergyType.ELECTRIC
    g = h3.geo_to_h3(39.75, -104.99, 15)
    v = Vehicle(id="v", mechatronics_id=mech.mechatronics_id, energy=mech.initial_energy(case["soc"]), energy_gained=mech.initial_energy(0.0),
                energy_expended=mech.initial_energy(0.0), position=EntityPosition("l", g), vehicle_state=Idle.build("v"),
                driver_state=AutonomousAvailable(AutonomousDriverAttributes("v")), membership=Membership(), total_seats=4)
    init = float(v.energy[et])

    def bad(key, **detail):
        out.append(Violation(PROP, f"{key} ({kind})", dict(detail, op_index=i, op=op)))

    for i, op in enumerate(case["ops"]):
        b = v
        stats["calls"] += 1
        l0 = float(b.energy[et])
        if op[0] == "drive":
            route = tuple(LinkTraversal(f"{j}-{j + 1}", g, g, d, s) for j, (d, s) in enumerate(op[1]))
            v = mech.consume_energy(v, route)
        elif op[0] == "idle":
            v = mech.idle(v, op[1])
        else:
            ch = Charger("c", EnergyType.from_string(op[1]), op[2], "kilowatts" if op[1] == "electric" else "gal_per_second")
            v, _ = mech.add_energy(v, ch, op[3])
        l1 = float(v.energy[et])
        dg = float(v.energy_gained[et] - b.energy_gained[et])
        de = float(v.energy_expended[et] - b.energy_expended[et])
        if l1 < 0 or l1 > cap + 1e-9:
            bad("level outside [0, capacity]", level=l1, capacity=cap)
        if l1 in (0.0, cap) and l1 != l0:
            flags.add("clamped")
        if abs((l1 - l0) - (dg - de)) > 1e-9:
            bad("level change != gained - expended", dlevel=l1 - l0, dgained=dg, dexpended=de)
        elif abs(l1 - (init + float(v.energy_gained[et]) - float(v.energy_expended[et]))) > TOL:
            bad("level != initial + gained - expended", level=l1, initial=init)
        if dg < 0 or de < 0:
            bad("negative gain or expenditure booked", dgained=dg, dexpended=de)
        if op[0] in ("drive", "idle"):
            if l1 > l0:
                bad("level rose while " + ("driving" if op[0] == "drive" else "idling"), before=l0, after=l1)
            if l0 > 0 and not l1 < l0:
                bad("drove a positive distance without expending energy" if op[0] == "drive" else "idled for a positive time without expending energy", before=l0, after=l1)
            if dg != 0:
                bad("gain booked while not charging", dgained=dg)
        else:
            same = (op[1] == "electric") == (kind == "BEV")
            dt = op[3]
            if l1 < l0:
                bad("charging lowered the level", before=l0, after=l1)
            if de != 0:
                bad("expenditure booked while charging", dexpended=de)
            if not same:
                flags.add("wrong_type_charger")
                if l1 != l0:
                    bad("wrong-type charger changed the level", before=l0, after=l1)
            else:
                deliverable = op[2] * dt / 3600.0 if op[1] == "electric" else op[2] * dt
                sub = case["mech"].get("substep")
                mis = bool(sub) and dt % sub != 0 and op[2] >= case["mech"]["taper"]
                if mis:
                    flags.add("charge_misaligned")
                if l1 - l0 > deliverable * (1 + 1e-9) + 1e-12:
                    tag = "step not a multiple of the charge curve's sub-step" if (sub and dt % sub) else "aligned step"
                    out.append(Violation(PROP, f"charge adds more than the plug can deliver ({tag})", {"added": l1 - l0, "deliverable": deliverable, "dt": dt, "substep": sub, "rate": op[2], "op_index": i}))
    return out, flags, dict(stats)


# ----------------------------------------------------------------------------- interface


def nshards(tier):
    return 16


def shard(tier, seed, idx) -> ShardResult:
    if idx < 8:
        res = ShardResult()
        comp.run(PROP, st_case(), check_case, lambda f: bool(f & {"charge_misaligned", "clamped", "ice"}), res,
                 cases=600 if tier == "quick" else 15000, seed=seed * 1000 + idx, kind="component")
        return res
    return hprop.shard(HIST, tier, seed, idx)


def replay(case):
    if case.get("kind") == "component":
        return comp.replay(PROP, check_case, case)
    return hprop.replay_case(HIST, case)


def minimise(failure):
    if failure["case"].get("kind") == "component":
        return failure["case"]  # already shrunk by Hypothesis
    return hprop.minimise_and_replayable(HIST, failure)
