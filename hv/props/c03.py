"""C03 Every ride request is resolved exactly once (DESIGN §C03)."""
from hv import hprop
from hv.monitors import C03Requests
from hv.worlds import profile

hprop.install(globals(), hprop.HistoryProperty(
    prop="C03",
    monitors=lambda: [C03Requests()],
    profile=profile(nv=(1, 6), n_requests=(8, 40), timeouts=[60, 120, 300, 600], socs=[0.003, 0.02, 0.08, 0.3, 0.8, 0.97],
                    builtin=[False, True], fleets=[0, 0, 0, 2], steps=[5, 15, 15, 30, 30, 45, 60, 60, 90, 120, 300], block_graphs=[False, True], h3_res=[15, 15, 15, 11, 10, 9],
                    nets=["hav", "gen", "gen", "denver"]),
    nontrivial=lambda f: {"pickup", "cancel"} <= f and bool(f & {"two_vehicles_to_one_request", "instruction_on_carrying_vehicle", "expired_while_vehicle_en_route"}),
    rule=("stateful histories over generated worlds with dense request streams (bursts, co-located, origin = destination, 60-600 s "
          "timeouts), controllers that double-dispatch, re-dispatch and instruct passenger-carrying vehicles, built-in dispatcher in "
          "half the cases; a per-request ledger automaton (unknown -> waiting -> on board -> dropped off | stranded | cancelled) is "
          "advanced from the captured events and compared with the state after every step, fares are reconciled with balances. "
          "non-trivial = >=1 pickup AND >=1 cancellation AND one of {two vehicles dispatched to one request, instruction attempted on "
          "a carrying vehicle, request expired while a vehicle was en route}; distinct = sha1(world, op log)"),
    assumptions=hprop.COMMON_ASSUMPTIONS,
    quick=(16, 120, 40), thorough=(16, 1200, 60),
    instr_bias={"restate": True, "raw": True, "raw_kinds": [0, 0, 0, 2, 2, 5], "raw_tclasses": [0, 0, 1, 2, 7], "kinds": [1, 1, 1, 1, 1, 0, 2, 3, 5, 6, 7, 8, 4], "vclasses": [0, 1, 2, 3, 3, 9, 9, 8], "tclasses": [0, 0, 1, 2, 7, 7, 4, 6]},
))
FLOORS = {"quick": {"flag:pickup": 30, "flag:cancel": 50}, "thorough": {"flag:pickup": 500}}
