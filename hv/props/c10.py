"""C10 Fleet membership is enforced on every interaction (DESIGN §C10)."""
from hv import hprop
from hv.monitors import C10Membership
from hv.worlds import profile

hprop.install(globals(), hprop.HistoryProperty(
    prop="C10",
    monitors=lambda: [C10Membership()],
    profile=profile(nv=(2, 7), n_requests=(5, 30), fleets=[0, 1, 2, 2, 3], socs=[0.02, 0.1, 0.15, 0.3, 0.8, 0.97], builtin=[True, True, False]),
    nontrivial=lambda f: {"cross_fleet_instruction_rejected", "builtin_pairing"} <= f,
    rule=("stateful histories over generated worlds with 1-3 fleets (ids that may contain one another: f1 / f10 / f100) and every vehicle, station, base independently in zero, one or several of "
          "them (plus the loader's private home-base memberships), requests carrying one fleet; adversarial controllers target other "
          "fleets' entities from every activity; built-in dispatcher + charging manager + drivers in two thirds of the cases. (a) after every "
          "step and single-instruction probe, every vehicle travelling to / serving / queueing / charging / parked at an entity must be "
          "granted by it (recomputed from the raw membership sets: public = empty set), for base charging also by the station whose plug is "
          "used; (b) every instruction the built-in Dispatcher / ChargingFleetManager emitted (through a pass-through recording proxy) and every "
          "driver-issued instruction must name an entity that grants the vehicle. non-trivial = >=1 rejected cross-fleet instruction AND >=1 "
          "built-in pairing; distinct = sha1(world, op log)"),
    assumptions=hprop.COMMON_ASSUMPTIONS + ["requests carry a fleet id iff a fleets file exists (the loader drops the others)"],
    quick=(16, 60, 35), thorough=(16, 800, 60), probes=True,
    instr_bias={"inject": True, "reoffer": True, "raw": True, "raw_tclasses": [4, 4, 4, 0, 1, 5], "tclasses": [0, 4, 4, 4, 4, 5, 1, 2]},
))
FLOORS = {"quick": {"flag:cross_fleet_instruction_rejected": 50, "builtin_pairings": 500}, "thorough": {"builtin_pairings": 10000}}
