"""C18 Charging queues are served first-come first-served (DESIGN §C18)."""
from hv import hprop
from hv.monitors import C18Queue
from hv.worlds import profile

hprop.install(globals(), hprop.HistoryProperty(
    prop="C18",
    monitors=lambda: [C18Queue()],
    profile=profile(nv=(4, 9), n_requests=(0, 0), socs=[0.9, 0.95, 0.97, 0.985, 0.99, 0.5, 0.5, 0.03, 0.06], shortest_time=False, mechs=["leaf_50", "leaf_50", "tiny_bev", "tiny_bev", "toyota_corolla"],
                    stations=(1, 1), bases=(1, 1), max_plugs=1, max_ptypes=2, plug_types=["DCFC", "LEVEL_2", "DCFC", "GAS_PUMP"], humans=True, human_share=[False, True], builtin=[False, False, True], fleets=[0], soc_limits=[1.0, 1.0, 0.8], steps=[30, 60, 60, 120]),
    nontrivial=lambda f: {"queue_of_three", "grant_from_queue"} <= f,
    rule=("stateful histories over generated worlds with 1-2 stations of one plug per type and 4-9 vehicles (a third of them with human drivers whose shifts flip while they queue) starting at 90-99 % charge "
          "(sessions end by themselves) or at 3-6 % (they run flat while they wait), vehicle ids whose lexical order differs from arrival order; vehicles are sent to the same plug "
          "at staggered and identical times, plugs are throttled (0 / 0.1 % / 25 % / 50 % / 100 % of the factory rate), abandon the queue, are pulled off the plug; whenever a vehicle goes queue -> plug without "
          "an instruction of its own in that step, no other vehicle still waiting for that plug (and able to use it: the plug's energy type is one the vehicle stores) may have a smaller "
          "(enqueue time, id). non-trivial = a queue of >=3 for one plug AND >=1 grant from the queue; distinct = sha1(world, op log)"),
    assumptions=hprop.COMMON_ASSUMPTIONS + ["a grant caused by an instruction naming the granted vehicle in that step is the controller's choice, not the queue's, and is not judged"],
    quick=(16, 200, 45), thorough=(16, 2000, 70),
    instr_bias={"rush": True, "throttle": True, "kinds": [2, 2, 2, 2, 2, 2, 2, 3, 0, 0, 5], "vclasses": [0, 1, 1, 1, 4, 4, 5], "tclasses": [0, 0, 3, 3, 1]},
))
FLOORS = {"quick": {"queue_grants": 30, "flag:equal_time_tie": 3}, "thorough": {"queue_grants": 300}}
