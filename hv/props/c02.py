"""C02 Charger, queue and parking-stall counts match the vehicles using them (DESIGN §C02)."""
from hv import hprop
from hv.monitors import C02Counts
from hv.worlds import profile

CFG = hprop.HistoryProperty(
    prop="C02",
    monitors=lambda: [C02Counts()],
    profile=profile(nv=(2, 7), socs=[0.0005, 0.003, 0.05, 0.3, 0.8, 0.97, 0.985, 0.995], n_requests=(0, 12), fleets=[0, 0, 0, 2], max_plugs=2, stations=(1, 2),
                    soc_limits=[1.0, 0.8], max_ptypes=2),
    nontrivial=lambda f: {"arrival_at_full_station", "exit_resource_by_instruction", "rejected_from_resource_holder"} <= f,
    rule=("stateful histories (Hypothesis RuleBasedStateMachine) over generated file-based worlds with 1-2 plugs per type and "
          "1-2 stalls: adversarial instruction directives resolved against the live state + built-in generators + steps; after "
          "every step and every single-instruction probe all plug/queue/stall counters are recounted from vehicle activities. "
          "non-trivial = history with an arrival at a full station AND an exit from a resource-holding activity by instruction "
          "AND a rejected instruction on a vehicle holding a plug/stall/queue slot; distinct = sha1(world, op log)"),
    assumptions=[
        "pooling activities are unreachable from any input and not generated",
        "a base's station is co-located with the base, as the input documentation says",
        "PYTHONHASHSEED pinned to 0 for the check process",
    ],
    quick=(16, 100, 35), thorough=(16, 600, 50), probes=True,
    # bias towards contention: send vehicles to stations/bases (preferably full ones), pull them out again
    instr_bias={"rush": True, "raw": True, "raw_kinds": [1, 1, 1, 3, 4, 0, 2, 5], "raw_tclasses": [0, 1, 1, 2, 3, 3], "kinds": [2, 2, 2, 2, 3, 3, 4, 4, 5, 6, 6, 0, 0, 1, 7, 8], "tclasses": [0, 1, 1, 3, 3, 3, 2, 4, 6]},
)
RULE, ASSUMPTIONS = CFG.rule, CFG.assumptions
FLOORS = {"quick": {"flag:arrival_at_full_station": 5, "flag:exit_resource_by_instruction": 20}, "thorough": {"flag:arrival_at_full_station": 50}}


def nshards(tier):
    return (CFG.quick if tier == "quick" else CFG.thorough)[0]


def shard(tier, seed, idx):
    return hprop.shard(CFG, tier, seed, idx)


def replay(case):
    return hprop.replay_case(CFG, case)


def minimise(failure):
    return hprop.minimise_and_replayable(CFG, failure)
