"""Street-graph specs (pure data), builders and an independent Dijkstra.

A graph spec is {"nodes": [[id, lat, lon], ...], "edges": [[u, v, length_m, speed_kmph|None], ...]}.
Generated graphs are strongly connected by construction (a Hamiltonian cycle
plus extra one-way / two-way streets), have no parallel edges and no self
loops (the link table keeps one link per ordered node pair).
"""
from __future__ import annotations

import heapq
import json
import math
from pathlib import Path
from typing import Any, Dict, List, Optional, Tuple

from hypothesis import strategies as st

from hv.base import REPO

DENVER_JSON = (
    REPO / "nrel/hive/resources/scenarios/denver_downtown/road_network/downtown_denver_network.json"
)
LAT0, LON0 = 39.7440, -104.9940  # south-west corner of the generated area (inside downtown Denver)
SPEEDS = [5, 15, 25, 30, 40, 50, 65, 90, 120]


def gc_m(a: Tuple[float, float], b: Tuple[float, float]) -> float:
    """great-circle metres between two (lat, lon) points (independent of HIVE)."""
    la1, lo1, la2, lo2 = map(math.radians, (a[0], a[1], b[0], b[1]))
    h = math.sin((la2 - la1) / 2) ** 2 + math.cos(la1) * math.cos(la2) * math.sin((lo2 - lo1) / 2) ** 2
    return 2 * 6371008.8 * math.asin(math.sqrt(h))


@st.composite
def st_graph(draw, min_nodes: int = 4, max_nodes: int = 12, varied_speed: bool = True, arbitrary_lengths: bool = False,
             scales: Tuple[int, ...] = (1,), block_times: bool = False, parallel: bool = False) -> Dict[str, Any]:
    n = draw(st.integers(min_nodes, max_nodes))
    # junction ids are free input data: re-indexed graphs count from 0, OSM extracts use large ids
    id0 = draw(st.sampled_from([100, 100, 0, 176090000]))
    side = math.ceil(math.sqrt(n))
    jit = st.integers(-8, 8)
    # geographic scale: 1 = a downtown of ~1.5 km (entity sites fit on it), larger = towns / regions of 5-60 km, where
    # anything that depends on absolute distances (search discs, cut-offs) behaves differently
    scale = draw(st.sampled_from(list(scales)))
    nodes = []
    for i in range(n):
        la = LAT0 + scale * (0.0035 * (i // side) + draw(jit) * 0.0001)
        lo = LON0 + scale * (0.0045 * (i % side) + draw(jit) * 0.0001)
        nodes.append([id0 + i, round(la, 6), round(lo, 6)])
    perm = draw(st.permutations(list(range(n))))
    pairs = {(perm[i], perm[(i + 1) % n]) for i in range(n)}
    extra = draw(st.lists(st.tuples(st.integers(0, n - 1), st.integers(0, n - 1), st.booleans()), max_size=2 * n))
    for a, b, two in extra:
        if a != b:
            pairs.add((a, b))
            if two:
                pairs.add((b, a))
    edges = []
    for a, b in sorted(pairs):
        base = max(gc_m(nodes[a][1:], nodes[b][1:]), 20.0)
        # arbitrary_lengths: the length attribute is free input data and may even be shorter than the straight line
        # between the junctions (C13/C14 quantify over arbitrary lengths); movement checks keep physical lengths
        stretch = draw(st.sampled_from([0.3, 0.6, 1.0, 1.0, 1.1, 1.3, 1.6, 2.5] if arbitrary_lengths else [1.0, 1.0, 1.1, 1.3, 1.6]))
        speed = draw(st.sampled_from(SPEEDS + [None])) if varied_speed else draw(st.sampled_from([40, None]))
        e = [id0 + a, id0 + b, round(base * stretch, 3), speed]
        if block_times:
            # a regular city: every link takes a whole multiple of 15 s at a whole number of m/s, so journeys between
            # junctions end exactly when a time step ends (the boundary case of every arrival rule)
            # (lengths stay physical: at least the straight line between the junctions)
            ms = draw(st.sampled_from([5, 10, 10, 15, 20]))
            blocks = math.ceil(base / (ms * 15.0)) + draw(st.sampled_from([0, 0, 1]))
            e = [id0 + a, id0 + b, ms * 15 * blocks + 0.01, ms * 3.6]
        if arbitrary_lengths and draw(st.sampled_from([False, False, True])):
            # an explicit travel_time attribute (as in the shipped Denver file), not necessarily length / speed
            e.append(round(base / 1000.0 / (speed or 40) * 3600.0 * draw(st.sampled_from([0.5, 1.0, 2.0])), 3))
        edges.append(e)
    if parallel:
        # parallel streets between the same two junctions (dual carriageways, crescents: MultiDiGraph keys >= 1, as in the
        # shipped Manhattan graph); the link table keeps one link per ordered junction pair
        for k in draw(st.lists(st.integers(0, len(edges) - 1), max_size=3)):
            u, v, length, speed = edges[k][:4]
            edges.append([u, v, round(length * draw(st.sampled_from([1.0, 1.2, 2.0])), 3), draw(st.sampled_from(SPEEDS + [None]))])
    return {"nodes": nodes, "edges": edges}


def graph_to_node_link(spec: Dict[str, Any]) -> Dict[str, Any]:
    keys: Dict[Tuple[int, int], int] = {}
    links = []
    for e in spec["edges"]:
        k = keys.get((e[0], e[1]), 0)
        keys[(e[0], e[1])] = k + 1
        links.append(dict({"source": e[0], "target": e[1], "key": k, "length": e[2]}, **({"speed_kmph": e[3]} if e[3] is not None else {}),
                          **({"travel_time": e[4]} if len(e) > 4 else {})))
    return {
        "directed": True,
        "multigraph": True,
        "graph": {},
        "nodes": [{"id": i, "y": la, "x": lo} for i, la, lo in spec["nodes"]],
        "links": links,
    }


def build_nx(node_link: Dict[str, Any]):
    import networkx as nx

    try:
        return nx.node_link_graph(node_link, edges="links")
    except TypeError:  # older networkx: 'links' is the default key
        return nx.node_link_graph(node_link)


def build_network(spec_or_denver, default_speed_kmph: float = 40.0, res: int = 15):
    """-> (OSMRoadNetwork, edge table {(u,v): {"length","speed_kmph","travel_time"}}) from the
    graph the network itself validated/completed (HIVE fills in missing speed/time)."""
    from nrel.hive.model.roadnetwork.osm.osm_roadnetwork import OSMRoadNetwork

    nl = json.loads(DENVER_JSON.read_text()) if spec_or_denver == "denver" else graph_to_node_link(spec_or_denver)
    g = build_nx(nl)
    rn = OSMRoadNetwork(g, res, default_speed_kmph)
    return rn


_DENVER_CACHE: Dict[Tuple[float, int], Any] = {}


def denver_network(default_speed_kmph: float = 40.0, res: int = 15):
    k = (default_speed_kmph, res)
    if k not in _DENVER_CACHE:
        _DENVER_CACHE[k] = build_network("denver", default_speed_kmph, res)
    return _DENVER_CACHE[k]


def edge_table_from_input(spec_or_denver, default_speed_kmph: float = 40.0) -> Dict[Tuple[int, int], Dict[str, float]]:
    """min-travel-time edge per ordered node pair computed from the *input data* (not from what the network stored after
    loading it): travel_time if the edge carries one, else length / speed (speed_kmph or the default speed)"""
    nl = json.loads(DENVER_JSON.read_text()) if spec_or_denver == "denver" else graph_to_node_link(spec_or_denver)
    t: Dict[Tuple[int, int], Dict[str, float]] = {}
    for d in nl["links"]:
        speed = float(d.get("speed_kmph", default_speed_kmph))
        tt = float(d["travel_time"]) if "travel_time" in d else (d["length"] / 1000) / speed * 3600
        k = (d["source"], d["target"])
        if k not in t or tt < t[k]["travel_time"]:
            t[k] = {"travel_time": tt, "length": float(d["length"]), "speed_kmph": speed}
    return t


def edge_table(rn) -> Dict[Tuple[int, int], Dict[str, float]]:
    """min-travel-time edge per ordered node pair, read from the network's own graph data."""
    t: Dict[Tuple[int, int], Dict[str, float]] = {}
    for u, v, d in rn.graph.edges(data=True):
        cur = t.get((u, v))
        if cur is None or d["travel_time"] < cur["travel_time"]:
            t[(u, v)] = {"travel_time": float(d["travel_time"]), "length": float(d["length"]), "speed_kmph": float(d["speed_kmph"])}
    return t


def dijkstra(edges: Dict[Tuple[int, int], Dict[str, float]], src: int, dst: int, weight: str = "travel_time") -> Optional[float]:
    """textbook Dijkstra over the edge table; returns the minimum total weight or None."""
    adj: Dict[int, List[Tuple[int, float]]] = {}
    for (u, v), d in edges.items():
        adj.setdefault(u, []).append((v, d[weight]))
    dist = {src: 0.0}
    pq = [(0.0, src)]
    while pq:
        d, u = heapq.heappop(pq)
        if u == dst:
            return d
        if d > dist.get(u, math.inf):
            continue
        for v, w in adj.get(u, ()):
            nd = d + w
            if nd < dist.get(v, math.inf):
                dist[v] = nd
                heapq.heappush(pq, (nd, v))
    return None


def fewest_links(edges: Dict[Tuple[int, int], Dict[str, float]], src: int, dst: int) -> Optional[int]:
    adj: Dict[int, List[int]] = {}
    for (u, v) in edges:
        adj.setdefault(u, []).append(v)
    seen = {src: 0}
    frontier = [src]
    while frontier:
        nxt = []
        for u in frontier:
            if u == dst:
                return seen[u]
            for v in adj.get(u, ()):
                if v not in seen:
                    seen[v] = seen[u] + 1
                    nxt.append(v)
        frontier = nxt
    return seen.get(dst)


# ----------------------------------------------------------------------------- positions (pure data -> EntityPosition)

# a position spec is ["link", link_selector, where] with where in {"start","end","mid", float fraction}
# or ["cell", lat, lon] (snapped with the network's own position_from_geoid)
st_where = st.sampled_from(["start", "end", "mid", 0.1, 0.25, 0.5, 0.75, 0.9])


def st_position(n_links_hint: int = 1000):
    return st.one_of(
        st.tuples(st.just("link"), st.integers(0, n_links_hint), st_where).map(list),
        # where a vehicle stands after it ran out of time inside a link: the cell of the point interpolated between the
        # link's end cells in (lat, lon), which need not be a cell of the link's grid line
        st.tuples(st.just("along"), st.integers(0, n_links_hint), st.integers(1, 99)).map(list),
        st.tuples(st.just("cell"), st.integers(0, 300), st.integers(0, 300)).map(lambda t: ["cell", round(LAT0 - 0.002 + t[1] * 0.00008, 6), round(LON0 - 0.002 + t[2] * 0.00008, 6)]),
    )


def sorted_links(rn):
    ls = getattr(rn, "_hv_sorted_links", None)
    if ls is None:
        ls = sorted(rn.link_helper.links.values(), key=lambda l: l.link_id)
        try:
            rn._hv_sorted_links = ls
        except Exception:
            pass
    return ls


def resolve_position(rn, spec):
    import h3
    from nrel.hive.model.entity_position import EntityPosition

    if spec[0] == "cell":
        return rn.position_from_geoid(h3.geo_to_h3(spec[1], spec[2], rn.sim_h3_resolution))
    links = sorted_links(rn)
    l = links[spec[1] % len(links)]
    if spec[0] == "along":
        (la0, lo0), (la1, lo1), f = h3.h3_to_geo(l.start), h3.h3_to_geo(l.end), spec[2] / 100.0
        return EntityPosition(l.link_id, h3.geo_to_h3(la0 + (la1 - la0) * f, lo0 + (lo1 - lo0) * f, h3.h3_get_resolution(l.start)))
    line = h3.h3_line(l.start, l.end)
    w = spec[2]
    if w == "start":
        g = line[0]
    elif w == "end":
        g = line[-1]
    elif w == "mid":
        g = line[len(line) // 2]
    else:
        g = line[min(len(line) - 1, int(len(line) * float(w)))]
    return EntityPosition(l.link_id, g)
