"""Canonical deep form of HIVE values (states, entities, reports) for exact comparison.

`canon(o, ids=False)` strips the per-run random tags (uuid instance ids) and sorts every
set- or map-valued field, so two runs that differ only in what C01 allows to differ
(random tags, order inside set-valued fields) have equal canonical forms.
`canon(o, ids=True)` keeps the tags (C16: a retained state must read *exactly* the same).
"""
from __future__ import annotations

import dataclasses
import enum
import hashlib
import uuid
from typing import Any


def canon(o: Any, ids: bool = False) -> Any:
    import immutables

    if isinstance(o, uuid.UUID):
        return str(o) if ids else "ID"
    if isinstance(o, (bool, type(None))):
        return repr(o)
    if isinstance(o, str):
        return o
    if isinstance(o, float):
        return repr(o)
    if isinstance(o, int):
        return repr(int(o))
    if isinstance(o, enum.Enum):
        return o.name
    if dataclasses.is_dataclass(o) and not isinstance(o, type):
        return (type(o).__name__,) + tuple((f.name, canon(getattr(o, f.name), ids)) for f in dataclasses.fields(o))
    if isinstance(o, tuple) and hasattr(o, "_fields"):
        return (type(o).__name__,) + tuple(
            (f, canon(getattr(o, f), ids)) for f in o._fields if f != "road_network"
        )
    if isinstance(o, (tuple, list)):
        return tuple(canon(x, ids) for x in o)
    if isinstance(o, (set, frozenset)):
        return tuple(sorted((canon(x, ids) for x in o), key=repr))
    if isinstance(o, (dict, immutables.Map)):
        return tuple(sorted(((canon(k, ids), canon(v, ids)) for k, v in o.items()), key=repr))
    try:
        import numpy as np

        if isinstance(o, np.ndarray):
            return ("ndarray", tuple(o.shape), repr(o.tolist()))
        if isinstance(o, np.generic):
            return repr(o.item())
    except ImportError:  # pragma: no cover
        pass
    return "<" + type(o).__name__ + ">"


def fingerprint(o: Any, ids: bool = False) -> str:
    return hashlib.sha1(repr(canon(o, ids)).encode()).hexdigest()


def canon_report(report_type: str, report: dict) -> Any:
    """canonical form of one event record: session ids are random tags; membership strings are
    comma-joined set members whose print order may differ."""
    out = []
    for k in sorted(report.keys()):
        v = report[k]
        if k in ("session_id",):
            continue
        if k in ("fleet_id", "vehicle_memberships", "memberships", "membership"):
            # set-valued: the print order of the members may differ between runs (allowed by C01)
            if isinstance(v, str):
                v = ",".join(sorted(v.split(",")))
            elif isinstance(v, (list, tuple)):
                v = sorted(v, key=repr)
        out.append((k, repr(canon(v))))
    return (report_type, tuple(out))


def first_diff(a: Any, b: Any, path: str = "") -> str:
    """human-readable path of the first difference between two canonical forms"""
    if type(a) != type(b):
        return f"{path}: {str(a)[:120]} != {str(b)[:120]}"
    if isinstance(a, tuple):
        if len(a) != len(b):
            return f"{path}: length {len(a)} != {len(b)}"
        for i, (x, y) in enumerate(zip(a, b)):
            if x != y:
                label = x[0] if isinstance(x, tuple) and x and isinstance(x[0], str) else i
                return first_diff(x, y, f"{path}/{label}")
        return ""
    return "" if a == b else f"{path}: {str(a)[:120]} != {str(b)[:120]}"
