"""Worker process of the C01 check: started with its own PYTHONHASHSEED, reads one JSON job per line on
stdin, runs the scenario through HIVE's public co-simulation API and answers with per-step digests."""
from __future__ import annotations

import collections
import hashlib
import json
import sys


def _digest(o) -> str:
    return hashlib.sha1(repr(o).encode()).hexdigest()[:20]


def run_job(job):
    from hv.base import quiet
    from hv.canon import canon, canon_report
    from hv.history import _mk_capture, sname
    from hv.props.c15 import _det_controller
    from hv.worlds import World, load_scenario
    from nrel.hive.app import hive_cosim

    detail = job.get("detail")
    world = None
    if job.get("warm"):
        # another scenario loaded and stepped in this process first (module-level state it leaves behind must not matter)
        w0 = World(job["warm"], gens=None, real_handlers=False, end_steps=10)
        try:
            with quiet():
                hive_cosim.crank(w0.rp, 3)
        finally:
            w0.close()
    if job["kind"] == "spec":
        # the real built-in generators (no recording proxies here: the co-simulation generator API addresses them by class)
        world = World(job["world"], gens=None, real_handlers=False, end_steps=job["steps"] + 5)
        rp = world.rp
        if job.get("det"):
            from nrel.hive.dispatcher.instruction_generator.charging_fleet_manager import ChargingFleetManager
            from nrel.hive.dispatcher.instruction_generator.dispatcher import Dispatcher
            from nrel.hive.runner import runner_payload_ops as rpo

            cfg = rp.e.config.dispatcher
            rp = rpo.set_instruction_generators(rp, (Dispatcher(cfg), ChargingFleetManager(cfg), _det_controller()))
    else:
        from pathlib import Path
        import tempfile
        from hv.base import SCRATCH_ROOT

        out = Path(tempfile.mkdtemp(prefix="hv-c01-", dir=str(SCRATCH_ROOT))) / "out"
        rp = load_scenario(job["name"], gens=None, out_dir=out)
    try:
        from nrel.hive.reporting.handler.stats_handler import StatsHandler

        cap = _mk_capture()()
        rp.e.reporter.add_handler(cap)
        stats_h = StatsHandler()
        rp.e.reporter.add_handler(stats_h)
        states, events = [], []
        flags = set()
        full = None
        for k in range(job["steps"]):
            if job.get("reinject") and k % 10 == 5:
                # co-simulation controllers replace a generator mid-run through the public API (docs/source/customize.md)
                from nrel.hive.dispatcher.instruction_generator.dispatcher import Dispatcher
                from nrel.hive.runner import runner_payload_ops as rpo

                rp = rpo.update_instruction_generator(rp, rpo.get_instruction_generator(rp, Dispatcher))
            with quiet():
                rp = hive_cosim.crank(rp, 1).runner_payload
            cs = canon(rp.s)
            ev = sorted(repr(canon_report(t, e)) for t, e in cap.steps[-1])
            states.append(_digest(cs))
            events.append(_digest(ev))
            if detail is not None and k == detail:
                full = {"state": cs, "events": ev}
            # order-sensitive situations (non-triviality)
            targets = collections.Counter()
            for t, e in cap.steps[-1]:
                if t == "INSTRUCTION":
                    for key in ("station_id", "base_id", "request_id"):
                        if key in e:
                            targets[(key, e[key])] += 1
            if targets and max(targets.values()) >= 2:
                flags.add("competing_instructions_for_one_entity")
            q = collections.Counter((v.vehicle_state.station_id, v.vehicle_state.charger_id, int(v.vehicle_state.enqueue_time)) for v in rp.s.vehicles.values() if sname(v) == "ChargeQueueing")
            if q and max(q.values()) >= 2:
                flags.add("equal_enqueue_time")
            for t, e in cap.steps[-1]:
                if t == "INSTRUCTION" and e["instruction_type"] == "DispatchTripInstruction":
                    v = rp.s.vehicles.get(e["vehicle_id"])
                    if v is not None and len(v.membership.memberships) >= 2:
                        flags.add("multi_fleet_vehicle_dispatched")
                if t == "INSTRUCTION" and e["instruction_type"] == "DispatchStationInstruction":
                    s = rp.s.stations.get(e["station_id"])
                    if s is not None and len(s.on_shift_access_chargers) >= 2:
                        flags.add("station_with_several_on_shift_plugs_chosen")
        with quiet():
            summary = stats_h.get_stats(rp)
        summ = _digest(canon(summary))
        n_events = sum(len(s) for s in cap.steps)
        return {"states": states, "events": events, "summary": summ, "flags": sorted(flags), "n_events": n_events, "full": full}
    finally:
        if world is not None:
            world.close()
        else:
            import shutil

            shutil.rmtree(out.parent, ignore_errors=True)


def main():
    from hv import base

    base.hush()
    # stdout is the protocol channel: keep a private copy and send everything HIVE prints to /dev/null
    import os

    proto = os.fdopen(os.dup(1), "w")
    devnull = os.open(os.devnull, os.O_WRONLY)
    os.dup2(devnull, 1)
    sys.stdout = open(os.devnull, "w")
    try:  # imports done before the first job arrives (the fresh worker of the pool is started one scenario ahead)
        import hv.history, hv.props.c15, hv.worlds  # noqa: F401,E401
        from nrel.hive.app import hive_cosim  # noqa: F401
    except Exception:
        pass
    for line in sys.stdin:
        line = line.strip()
        if not line:
            continue
        job = json.loads(line)
        if job.get("kind") == "quit":
            break
        try:
            res = run_job(job)
            if job.get("twice"):
                res2 = run_job(job)
                res["repeat_equal"] = (res["states"], res["events"], res["summary"]) == (res2["states"], res2["events"], res2["summary"])
                if not res["repeat_equal"]:
                    res["repeat_first_diff"] = next((k for k, (a, b) in enumerate(zip(zip(res["states"], res["events"]), zip(res2["states"], res2["events"]))) if a != b), -1)
            res["ok"] = True
        except Exception as e:
            import traceback

            res = {"ok": False, "error": traceback.format_exc()[-3000:]}
        proto.write(json.dumps(res, default=str) + "\n")
        proto.flush()


if __name__ == "__main__":
    main()
